(* Theorems about the unit-tree model (C13). *)
From PyrollLib Require Import UnitTree.
From Coq Require Import Lia.

Lemma alookup_aset {V} (l : list (uid * V)) k v k' :
  alookup (aset l k v) k' = if Nat.eqb k k' then Some v else alookup l k'.
Proof.
  induction l as [|[k0 v0] l IH]; cbn.
  - destruct (Nat.eqb k k'); reflexivity.
  - destruct (Nat.eqb_spec k0 k); cbn.
    + subst k0. destruct (Nat.eqb_spec k k'); reflexivity.
    + destruct (Nat.eqb_spec k0 k'); [subst; destruct (Nat.eqb_spec k k'); congruence | exact IH].
Qed.
Lemma alookup_adel {V} (l : list (uid * V)) k k' :
  alookup (adel l k) k' = if Nat.eqb k k' then None else alookup l k'.
Proof.
  induction l as [|[k0 v0] l IH]; cbn.
  - destruct (Nat.eqb k k'); reflexivity.
  - destruct (Nat.eqb_spec k0 k); cbn.
    + subst k0. rewrite IH. destruct (Nat.eqb_spec k k'); reflexivity.
    + rewrite IH. destruct (Nat.eqb_spec k0 k'); [subst; destruct (Nat.eqb_spec k k'); congruence | reflexivity].
Qed.

Lemma mem_In x l : mem x l = true <-> In x l.
Proof.
  unfold mem. rewrite existsb_exists. split.
  - intros [y [H E]]. apply Nat.eqb_eq in E. subst. assumption.
  - intro H. exists x. split; [assumption | apply Nat.eqb_refl].
Qed.
Lemma mem_false x l : mem x l = false <-> ~ In x l.
Proof. rewrite <- mem_In. destruct (mem x l); split; congruence. Qed.

Lemma par_set_par s u p v : par_of (set_par s u p) v = if Nat.eqb u v then p else par_of s v.
Proof.
  unfold par_of, set_par. cbn [par]. destruct p as [q|].
  - apply alookup_aset.
  - apply alookup_adel.
Qed.
Lemma kids_set_par s u p q : kids_of (set_par s u p) q = kids_of s q.
Proof. reflexivity. Qed.

Lemma par_detach D : forall s v, par_of (detach s D) v = if mem v D then None else par_of s v.
Proof.
  induction D as [|u D IH]; intros s v; cbn [detach fold_left mem existsb]; [reflexivity|].
  change (fold_left (fun a u0 => set_par a u0 None) D (set_par s u None)) with (detach (set_par s u None) D).
  rewrite IH, par_set_par. fold (mem v D). rewrite (Nat.eqb_sym v u).
  destruct (mem v D), (Nat.eqb u v); reflexivity.
Qed.
Lemma par_attach q A : forall s v, par_of (attach s q A) v = if mem v A then Some q else par_of s v.
Proof.
  induction A as [|u A IH]; intros s v; cbn [attach fold_left mem existsb]; [reflexivity|].
  change (fold_left (fun a u0 => set_par a u0 (Some q)) A (set_par s u (Some q))) with (attach (set_par s u (Some q)) q A).
  rewrite IH, par_set_par. fold (mem v A). rewrite (Nat.eqb_sym v u).
  destruct (mem v A), (Nat.eqb u v); reflexivity.
Qed.
Lemma kids_detach D : forall s q, kids_of (detach s D) q = kids_of s q.
Proof. induction D as [|u D IH]; intros s q; cbn [detach fold_left]; [reflexivity|]. etransitivity; [apply (IH (set_par s u None) q) | reflexivity]. Qed.
Lemma kids_attach o A : forall s q, kids_of (attach s o A) q = kids_of s q.
Proof. induction A as [|u A IH]; intros s q; cbn [attach fold_left]; [reflexivity|]. etransitivity; [apply (IH (set_par s u (Some o)) q) | reflexivity]. Qed.
Lemma kinds_detach D : forall s, kinds (detach s D) = kinds s.
Proof. induction D as [|u D IH]; intro s; cbn [detach fold_left]; [reflexivity|]. etransitivity; [apply (IH (set_par s u None)) | reflexivity]. Qed.
Lemma kinds_attach o A : forall s, kinds (attach s o A) = kinds s.
Proof. induction A as [|u A IH]; intro s; cbn [attach fold_left]; [reflexivity|]. etransitivity; [apply (IH (set_par s u (Some o))) | reflexivity]. Qed.

Lemma kids_set_kids s q l q' : kids_of (set_kids s q l) q' = if Nat.eqb q q' then l else kids_of s q'.
Proof. unfold kids_of, set_kids. cbn [kids]. rewrite alookup_aset. destruct (Nat.eqb q q'); reflexivity. Qed.

Lemma update_par s q l' D A v :
  par_of (update s q l' D A) v = if mem v A then Some q else if mem v D then None else par_of s v.
Proof. unfold update. rewrite par_attach, par_detach. reflexivity. Qed.
Lemma update_kids s q l' D A q' :
  kids_of (update s q l' D A) q' = if Nat.eqb q q' then l' else kids_of s q'.
Proof. unfold update. rewrite kids_attach, kids_detach, kids_set_kids. reflexivity. Qed.
Lemma update_kinds s q l' D A : kinds (update s q l' D A) = kinds s.
Proof. unfold update. rewrite kinds_attach, kinds_detach. reflexivity. Qed.

(* ------------------------------------------------------------------------------------------- *)
(* the consistency invariant of the property: every listed unit names the listing sequence as its parent,
   every unit naming a parent is listed there, no unit is listed twice *)
Record Inv (s : st) : Prop := {
  inv_listed : forall q u, In u (kids_of s q) -> par_of s u = Some q;
  inv_parent : forall u q, par_of s u = Some q -> In u (kids_of s q);
  inv_nodup : forall q, NoDup (kids_of s q) }.

Theorem update_inv s q l' D A :
  Inv s -> NoDup l' ->
  (forall u, In u l' -> In u A \/ (In u (kids_of s q) /\ ~ In u D)) ->
  (forall u, In u A -> In u l' /\ (par_of s u = None \/ In u (kids_of s q))) ->
  (forall u, In u D -> In u (kids_of s q)) ->
  (forall u, In u (kids_of s q) -> ~ In u l' -> In u D) ->
  Inv (update s q l' D A).
Proof.
  intros [I1 I2 I3] ND H1 H2 H3 H4. split.
  - intros q' u. rewrite update_kids, update_par. destruct (Nat.eqb_spec q q') as [E|NE].
    + subst q'. intro Hu. destruct (mem u A) eqn:MA; [reflexivity|].
      apply mem_false in MA. destruct (H1 u Hu) as [X|[X Y]]; [contradiction|].
      apply mem_false in Y. rewrite Y. apply I1. assumption.
    + intro Hu. pose proof (I1 q' u Hu) as P.
      destruct (mem u A) eqn:MA.
      * apply mem_In in MA. destruct (H2 u MA) as [_ [X|X]]; [congruence|]. rewrite (I1 q u X) in P. congruence.
      * destruct (mem u D) eqn:MD; [|assumption].
        apply mem_In in MD. pose proof (I1 q u (H3 u MD)). congruence.
  - intros u q'. rewrite update_kids, update_par.
    destruct (mem u A) eqn:MA.
    + intro E. inversion E; subst q'. rewrite Nat.eqb_refl. apply mem_In in MA. apply (H2 u MA).
    + destruct (mem u D) eqn:MD; [discriminate|]. intro P. pose proof (I2 u q' P) as X.
      destruct (Nat.eqb_spec q q') as [E|NE]; [|assumption]. subst q'.
      apply mem_false in MD. destruct (in_dec Nat.eq_dec u l') as [Y|Y]; [assumption|].
      exfalso. apply MD. apply H4; assumption.
  - intro q'. rewrite update_kids. destruct (Nat.eqb q q'); [assumption | apply I3].
Qed.

(* list facts used to instantiate update_inv *)
Lemma NoDup_app_iff {A} (a b : list A) :
  NoDup (a ++ b) <-> NoDup a /\ NoDup b /\ (forall x, In x a -> ~ In x b).
Proof.
  induction a as [|x a IH]; cbn.
  - split; [intro H; repeat split; [constructor | assumption | tauto] | tauto].
  - split.
    + intro H. inversion H as [|? ? Hx Hr]; subst. apply IH in Hr. destruct Hr as [Na [Nb Dj]].
      rewrite in_app_iff in Hx. repeat split.
      * constructor; tauto.
      * assumption.
      * intros y [E|Hy]; [subst; tauto | apply Dj; assumption].
    + intros [Na [Nb Dj]]. inversion Na as [|? ? Hx Hr]; subst. constructor.
      * rewrite in_app_iff. intros [X|X]; [contradiction | apply (Dj x); tauto].
      * apply IH. repeat split; try assumption. intros y Hy. apply Dj. right. assumption.
Qed.

Lemma split_nth (l : list uid) n : n < length l ->
  exists l1 l2, l = l1 ++ nth n l 0 :: l2 /\ length l1 = n /\
                remove_nth n l = l1 ++ l2 /\ forall v, replace_nth n l v = l1 ++ v :: l2.
Proof.
  revert n. induction l as [|x l IH]; intros n H; cbn in H; [lia|].
  destruct n as [|n].
  - exists [], l. repeat split.
  - destruct (IH n ltac:(lia)) as [l1 [l2 [E [L [R P]]]]].
    exists (x :: l1), l2. cbn [nth app length remove_nth replace_nth]. split; [|split; [|split]].
    + f_equal. exact E.
    + lia.
    + f_equal. exact R.
    + intro v. f_equal. apply P.
Qed.

Lemma skipn_skipn' {A} a b (l : list A) : skipn a (skipn b l) = skipn (b + a) l.
Proof.
  revert l. induction b as [|b IH]; intro l; [reflexivity|].
  destruct l as [|x l]; [destruct a; reflexivity|]. cbn [skipn plus]. apply IH.
Qed.

Lemma split_slice (l : list uid) lo hi : lo <= hi ->
  l = firstn lo l ++ firstn (hi - lo) (skipn lo l) ++ skipn hi l.
Proof.
  intro H. rewrite <- (firstn_skipn lo l) at 1. f_equal.
  rewrite <- (firstn_skipn (hi - lo) (skipn lo l)) at 1. f_equal.
  rewrite skipn_skipn'. f_equal. lia.
Qed.

Lemma insert_at_split (l : list uid) n v : exists l1 l2, l = l1 ++ l2 /\ insert_at n l v = l1 ++ v :: l2.
Proof.
  revert n. induction l as [|x l IH]; intro n.
  - exists [], []. destruct n; split; reflexivity.
  - destruct n as [|n]; [exists [], (x :: l); split; reflexivity|].
    destruct (IH n) as [l1 [l2 [E P]]]. exists (x :: l1), l2. cbn. rewrite P, <- E. split; reflexivity.
Qed.

Lemma remove_first_split x (l : list uid) : In x l -> exists l1 l2, l = l1 ++ x :: l2 /\ remove_first x l = l1 ++ l2.
Proof.
  induction l as [|y l IH]; cbn; [tauto|]. intros [E|H].
  - subst. rewrite Nat.eqb_refl. exists [], l. split; reflexivity.
  - destruct (Nat.eqb_spec x y); [subst; exists [], l; split; reflexivity|].
    destruct (IH H) as [l1 [l2 [E P]]]. exists (y :: l1), l2. cbn. rewrite P, <- E. split; reflexivity.
Qed.

Lemma norm_index_lt len i n : norm_index len i = Some n -> n < len.
Proof.
  unfold norm_index. destruct ((0 <=? i)%Z && (i <? Z.of_nat len)%Z)%bool eqn:A.
  - intro E. inversion E. apply andb_prop in A. destruct A as [A1 A2]. apply Z.leb_le in A1. apply Z.ltb_lt in A2. lia.
  - destruct ((i <? 0)%Z && (- Z.of_nat len <=? i)%Z)%bool eqn:B; [|discriminate].
    intro E. inversion E. apply andb_prop in B. destruct B as [B1 B2]. apply Z.ltb_lt in B1. apply Z.leb_le in B2. lia.
Qed.

(* ------------------------------------------------------------------------------------------- *)
(* admissible operations: a unit that is added is not currently listed anywhere (moving a unit = removing
   it and adding it again); everything else is unrestricted *)
Definition unlisted (s : st) (u : uid) : Prop := par_of s u = None.

Definition admissible (s : st) (o : op) : Prop :=
  match o with
  | NewUnit u _ _ => unlisted s u /\ kids_of s u = []
  | Construct q us _ => unlisted s q /\ kids_of s q = [] /\ NoDup us /\ (forall u, In u us -> unlisted s u)
  | Append _ u | Prepend _ u | Insert _ _ u => unlisted s u
  | Extend _ us | IAdd _ us => NoDup us /\ (forall u, In u us -> unlisted s u)
  | SetItem q i u =>
      unlisted s u \/ (exists n, norm_index (length (kids_of s q)) i = Some n /\ nth n (kids_of s q) 0 = u)
  | SetSlice q a b us =>      (* new units, or units of the replaced window itself (a filtered / reordered / re-assigned window) *)
      NoDup us /\ (forall u, In u us -> unlisted s u \/
                     In u (firstn (snd (slice_bounds (length (kids_of s q)) a b) - fst (slice_bounds (length (kids_of s q)) a b))
                                  (skipn (fst (slice_bounds (length (kids_of s q)) a b)) (kids_of s q))))
  | _ => True
  end.

Lemma unlisted_not_in s q u : Inv s -> unlisted s u -> ~ In u (kids_of s q).
Proof. intros I U X. unfold unlisted in U. rewrite (inv_listed s I q u X) in U. discriminate. Qed.

Ltac inr := repeat (rewrite in_app_iff in * || cbn [In] in *).

Lemma inv_append s q u : Inv s -> unlisted s u -> Inv (update s q (kids_of s q ++ [u]) [] [u]).
Proof.
  intros I U. pose proof (unlisted_not_in s q u I U) as N. apply update_inv; try assumption.
  - apply NoDup_app_iff. split; [apply (inv_nodup s I)|]. split; [repeat constructor; intros []|].
    intros x Hx [E|[]]. subst. contradiction.
  - intros x Hx. inr. intuition.
  - intros x Hx. inr. destruct Hx as [E|[]]. subst. split; [tauto | left; exact U].
  - intros x [].
  - intros x Hx Nx. exfalso. apply Nx. inr. tauto.
Qed.

Lemma inv_insert s q u n : Inv s -> unlisted s u -> Inv (update s q (insert_at n (kids_of s q) u) [] [u]).
Proof.
  intros I U. pose proof (unlisted_not_in s q u I U) as N.
  destruct (insert_at_split (kids_of s q) n u) as [l1 [l2 [E P]]]. rewrite P.
  pose proof (inv_nodup s I q) as ND. rewrite E in ND, N. apply NoDup_app_iff in ND. destruct ND as [N1 [N2 Dj]].
  apply update_inv; try assumption.
  - apply NoDup_app_iff. split; [assumption|]. split.
    + constructor; [|assumption]. intro X. apply N. inr. tauto.
    + intros x Hx [Y|Y]; [subst; apply N; inr; tauto | apply (Dj x); assumption].
  - intros x Hx. rewrite E. inr. intuition.
  - intros x Hx. inr. destruct Hx as [Y|[]]. subst. split; [tauto | left; exact U].
  - intros x [].
  - intros x Hx Nx. exfalso. apply Nx. rewrite E in Hx. inr. tauto.
Qed.

Lemma inv_extend s q us : Inv s -> NoDup us -> (forall u, In u us -> unlisted s u) ->
  Inv (update s q (kids_of s q ++ us) [] us).
Proof.
  intros I ND U. apply update_inv; try assumption.
  - apply NoDup_app_iff. split; [apply (inv_nodup s I)|]. split; [assumption|].
    intros x Hx Hy. apply (unlisted_not_in s q x I (U x Hy)). assumption.
  - intros x Hx. inr. intuition.
  - intros x Hx. split; [inr; tauto | left; apply U; assumption].
  - intros x [].
  - intros x Hx Nx. exfalso. apply Nx. inr. tauto.
Qed.

Lemma inv_remove_nth s q n : Inv s -> n < length (kids_of s q) ->
  Inv (update s q (remove_nth n (kids_of s q)) [nth n (kids_of s q) 0] []).
Proof.
  intros I L. destruct (split_nth (kids_of s q) n L) as [l1 [l2 [E [_ [R _]]]]]. rewrite R.
  set (x := nth n (kids_of s q) 0) in *.
  pose proof (inv_nodup s I q) as ND. rewrite E in ND. apply NoDup_app_iff in ND. destruct ND as [N1 [N2 Dj]].
  inversion N2 as [|? ? Nx N2']; subst.
  apply update_inv; try assumption.
  - apply NoDup_app_iff. split; [assumption|]. split; [assumption|]. intros y Hy Hz. apply (Dj y Hy). right. assumption.
  - intros y Hy. right. rewrite E. inr. split; [tauto|]. intros [Y|[]]. subst y.
    destruct Hy as [Hy|Hy]; [apply (Dj x Hy); left; reflexivity | contradiction].
  - intros y [].
  - intros y [Y|[]]. subst y. rewrite E. inr. tauto.
  - intros y Hy Ny. rewrite E in Hy. inr. destruct Hy as [Hy|[Hy|Hy]]; [exfalso; apply Ny; tauto | left; assumption | exfalso; apply Ny; tauto].
Qed.

Lemma inv_setitem s q n u : Inv s -> n < length (kids_of s q) ->
  (unlisted s u \/ nth n (kids_of s q) 0 = u) ->
  Inv (update s q (replace_nth n (kids_of s q) u) [nth n (kids_of s q) 0] [u]).
Proof.
  intros I L HU. destruct (split_nth (kids_of s q) n L) as [l1 [l2 [E [_ [_ P]]]]]. rewrite P.
  set (x := nth n (kids_of s q) 0) in *.
  pose proof (inv_nodup s I q) as ND. rewrite E in ND. apply NoDup_app_iff in ND. destruct ND as [N1 [N2 Dj]].
  inversion N2 as [|? ? Nx N2']; subst.
  assert (NU : ~ In u l1 /\ ~ In u l2).
  { destruct HU as [U|Eq].
    - pose proof (unlisted_not_in s q u I U) as N. rewrite E in N. split; intro X; apply N; inr; tauto.
    - subst u. split; [intro X; apply (Dj x X); left; reflexivity | assumption]. }
  destruct NU as [NU1 NU2].
  apply update_inv; try assumption.
  - apply NoDup_app_iff. split; [assumption|]. split; [constructor; assumption|].
    intros y Hy [Y|Y]; [subst; contradiction | apply (Dj y Hy); right; assumption].
  - intros y Hy. inr. destruct Hy as [Hy|[Hy|Hy]]; [| left; tauto |].
    + right. rewrite E. inr. split; [tauto|]. intros [Y|[]]. subst y. apply (Dj x Hy). left. reflexivity.
    + right. rewrite E. inr. split; [tauto|]. intros [Y|[]]. subst y. contradiction.
  - intros y [Y|[]]. subst y. split; [inr; tauto|]. destruct HU as [U|Eq]; [left; exact U | right; rewrite E; subst u; inr; tauto].
  - intros y [Y|[]]. subst y. rewrite E. inr. tauto.
  - intros y Hy Ny. rewrite E in Hy. inr. destruct Hy as [Hy|[Hy|Hy]]; [exfalso; apply Ny; tauto | left; assumption | exfalso; apply Ny; tauto].
Qed.

Lemma inv_slice s q lo hi us : Inv s -> lo <= hi -> NoDup us ->
  (forall u, In u us -> unlisted s u \/ In u (firstn (hi - lo) (skipn lo (kids_of s q)))) ->
  Inv (update s q (firstn lo (kids_of s q) ++ us ++ skipn hi (kids_of s q))
              (firstn (hi - lo) (skipn lo (kids_of s q))) us).
Proof.
  intros I Le NDu U. pose proof (split_slice (kids_of s q) lo hi Le) as E.
  set (l1 := firstn lo (kids_of s q)) in *. set (mid := firstn (hi - lo) (skipn lo (kids_of s q))) in *.
  set (l2 := skipn hi (kids_of s q)) in *.
  pose proof (inv_nodup s I q) as ND. rewrite E in ND. apply NoDup_app_iff in ND. destruct ND as [N1 [N23 D1]].
  apply NoDup_app_iff in N23. destruct N23 as [Nm [N2 D2]].
  assert (NU : forall u, In u us -> ~ In u l1 /\ ~ In u l2).
  { intros u Hu. destruct (U u Hu) as [Un|Mid].
    - pose proof (unlisted_not_in s q u I Un) as N. rewrite E in N. split; intro X; apply N; inr; tauto.
    - split; intro X; [apply (D1 u X); inr; tauto | apply (D2 u Mid X)]. }
  apply update_inv; try assumption.
  - apply NoDup_app_iff. split; [assumption|]. split.
    + apply NoDup_app_iff. split; [assumption|]. split; [assumption|]. intros y Hy Hz. apply (proj2 (NU y Hy)). assumption.
    + intros y Hy Hz. inr. destruct Hz as [Hz|Hz]; [apply (proj1 (NU y Hz)); assumption | apply (D1 y Hy); inr; tauto].
  - intros y Hy. inr. destruct Hy as [Hy|[Hy|Hy]]; [| left; assumption |].
    + right. split; [rewrite E; inr; tauto|]. intro X. apply (D1 y Hy). inr. tauto.
    + right. split; [rewrite E; inr; tauto|]. intro X. apply (D2 y X). assumption.
  - intros y Hy. split; [inr; tauto |]. destruct (U y Hy) as [Un|Mid]; [left; exact Un | right; rewrite E; inr; tauto].
  - intros y Hy. rewrite E. inr. tauto.
  - intros y Hy Ny. rewrite E in Hy. inr. destruct Hy as [Hy|[Hy|Hy]]; [exfalso; apply Ny; tauto | assumption | exfalso; apply Ny; tauto].
Qed.

Lemma inv_remove_first s q u : Inv s -> In u (kids_of s q) ->
  Inv (update s q (remove_first u (kids_of s q)) [u] []).
Proof.
  intros I Hu. destruct (remove_first_split u (kids_of s q) Hu) as [l1 [l2 [E R]]]. rewrite R.
  pose proof (inv_nodup s I q) as ND. rewrite E in ND. apply NoDup_app_iff in ND. destruct ND as [N1 [N2 Dj]].
  inversion N2 as [|? ? Nx N2']; subst.
  apply update_inv; try assumption.
  - apply NoDup_app_iff. split; [assumption|]. split; [assumption|]. intros y Hy Hz. apply (Dj y Hy). right. assumption.
  - intros y Hy. right. rewrite E. inr. split; [tauto|]. intros [Y|[]]. subst y.
    destruct Hy as [Hy|Hy]; [apply (Dj u Hy); left; reflexivity | contradiction].
  - intros y [].
  - intros y [Y|[]]. subst y. assumption.
  - intros y Hy Ny. rewrite E in Hy. inr. destruct Hy as [Hy|[Hy|Hy]]; [exfalso; apply Ny; tauto | left; assumption | exfalso; apply Ny; tauto].
Qed.

Lemma inv_clear s q : Inv s -> Inv (update s q [] (kids_of s q) []).
Proof.
  intro I. apply update_inv; try assumption.
  - constructor.
  - intros y [].
  - intros y [].
  - tauto.
  - tauto.
Qed.

Lemma inv_reverse s q : Inv s -> Inv (update s q (rev (kids_of s q)) [] []).
Proof.
  intro I. apply update_inv; try assumption.
  - apply NoDup_rev. apply (inv_nodup s I).
  - intros y Hy. right. split; [apply in_rev; assumption | intros []].
  - intros y [].
  - intros y [].
  - intros y Hy Ny. exfalso. apply Ny. apply -> in_rev. assumption.
Qed.

Lemma inv_listcopy s q : Inv s -> Inv (update s q (kids_of s q) [] (kids_of s q)).
Proof.
  intro I. apply update_inv; try assumption.
  - apply (inv_nodup s I).
  - intros y Hy. left. assumption.
  - intros y Hy. split; [assumption | right; assumption].
  - intros y [].
  - intros y Hy Ny. contradiction.
Qed.

Lemma slice_bounds_le len a b lo hi : slice_bounds len a b = (lo, hi) -> lo <= hi.
Proof. unfold slice_bounds. intro E. inversion E. lia. Qed.

Lemma inv_newunit s u k lb : Inv s -> unlisted s u -> kids_of s u = [] ->
  Inv (fst (step s (NewUnit u k lb))).
Proof.
  intros [I1 I2 I3] U K. cbn [step fst]. unfold unlisted in U.
  set (s' := {| kids := aset (kids s) u []; par := adel (par s) u; kinds := aset (kinds s) u k; labels := aset (labels s) u lb |}).
  assert (KK : forall q, kids_of s' q = if Nat.eqb u q then [] else kids_of s q).
  { intro q. unfold kids_of, s'. cbn [kids]. rewrite alookup_aset. destruct (Nat.eqb u q); reflexivity. }
  assert (PP : forall v, par_of s' v = if Nat.eqb u v then None else par_of s v).
  { intro v. unfold par_of, s'. cbn [par]. apply alookup_adel. }
  split.
  - intros q v. rewrite KK, PP. destruct (Nat.eqb_spec u q); [intros []|]. intro Hv.
    destruct (Nat.eqb_spec u v); [subst v; rewrite (I1 q u Hv) in U; discriminate | apply I1; assumption].
  - intros v q. rewrite KK, PP. destruct (Nat.eqb_spec u v); [discriminate|]. intro P.
    destruct (Nat.eqb_spec u q); [subst q; pose proof (I2 v u P) as X; rewrite K in X; destruct X | apply I2; assumption].
  - intro q. rewrite KK. destruct (Nat.eqb u q); [constructor | apply I3].
Qed.

Lemma inv_construct s q us lb : Inv s -> unlisted s q -> kids_of s q = [] -> NoDup us ->
  (forall u, In u us -> unlisted s u) -> Inv (fst (step s (Construct q us lb))).
Proof.
  intros I Uq K ND U. cbn [step fst]. unfold unlisted in Uq.
  set (s1 := {| kids := kids s; par := adel (par s) q; kinds := aset (kinds s) q KSeq; labels := aset (labels s) q lb |}).
  assert (PP : forall v, par_of s1 v = if Nat.eqb q v then None else par_of s v).
  { intro v. unfold par_of, s1. cbn [par]. apply alookup_adel. }
  assert (KK : forall j, kids_of s1 j = kids_of s j) by reflexivity.
  assert (I1' : Inv s1).
  { destruct I as [I1 I2 I3]. split.
    - intros j v. rewrite KK, PP. intro Hv. destruct (Nat.eqb_spec q v); [subst v; rewrite (I1 j q Hv) in Uq; discriminate | apply I1; assumption].
    - intros v j. rewrite KK, PP. destruct (Nat.eqb q v); [discriminate | apply I2].
    - intro j. rewrite KK. apply I3. }
  apply update_inv; try assumption.
  - intros u Hu. left. assumption.
  - intros u Hu. split; [assumption|]. left. unfold unlisted in *. rewrite PP. destruct (Nat.eqb q u); [reflexivity | apply U; assumption].
  - intros u [].
  - intros u Hu. rewrite KK, K in Hu. destruct Hu.
Qed.

(* the operations covered by the invariant theorem (Flatten: see C13_flatten_partial) *)
Definition covered (o : op) : Prop := match o with Flatten _ => False | _ => True end.

Theorem step_inv s o : Inv s -> admissible s o -> covered o -> Inv (fst (step s o)).
Proof.
  intros I A C. destruct o; cbn [admissible covered] in A, C; try contradiction.
  - destruct A as [A1 A2]. apply inv_newunit; assumption.
  - destruct A as [A1 [A2 [A3 A4]]]. apply inv_construct; assumption.
  - cbn [step fst]. apply inv_append; assumption.
  - cbn [step fst]. apply (inv_insert s s0 u 0 I A).
  - cbn [step fst]. apply inv_insert; assumption.
  - cbn [step fst]. destruct A. apply inv_extend; assumption.
  - cbn [step fst]. destruct A. apply inv_extend; assumption.
  - cbn [step]. destruct (norm_index (length (kids_of s s0)) i) as [n|] eqn:E; cbn [fst]; [|assumption].
    apply inv_setitem; [assumption | eapply norm_index_lt; eassumption|].
    destruct A as [A|[n' [E' A]]]; [left; assumption | right; congruence].
  - cbn [step]. destruct (slice_bounds (length (kids_of s s0)) a b) as [lo hi] eqn:E. cbn [fst].
    destruct A as [A1 A2]. cbn [fst snd] in A2. apply inv_slice; try assumption. eapply slice_bounds_le; eassumption.
  - cbn [step]. destruct (norm_index (length (kids_of s s0)) i) as [n|] eqn:E; cbn [fst]; [|assumption].
    apply inv_remove_nth; [assumption | eapply norm_index_lt; eassumption].
  - cbn [step]. destruct (slice_bounds (length (kids_of s s0)) a b) as [lo hi] eqn:E. cbn [fst].
    pose proof (inv_slice s s0 lo hi [] I (slice_bounds_le _ _ _ _ _ E) (NoDup_nil _) (fun u X => match X with end)) as P.
    cbn [app] in P. exact P.
  - cbn [step]. destruct (norm_index (length (kids_of s s0)) (match i with Some x => x | None => (-1)%Z end)) as [n|] eqn:E; cbn [fst]; [|assumption].
    apply inv_remove_nth; [assumption | eapply norm_index_lt; eassumption].
  - cbn [step]. destruct (mem u (kids_of s s0)) eqn:M; cbn [fst]; [|assumption].
    apply inv_remove_first; [assumption | apply mem_In; assumption].
  - cbn [step fst]. apply inv_clear; assumption.
  - cbn [step]. destruct (norm_index (length (kids_of s s0)) i) as [n|] eqn:E; cbn [fst]; [|assumption].
    apply inv_remove_nth; [assumption | eapply norm_index_lt; eassumption].
  - cbn [step fst]. apply inv_listcopy; assumption.
  - cbn [step fst]. apply inv_reverse; assumption.
Qed.

Fixpoint ok_run (s : st) (ops : list op) : Prop :=
  match ops with [] => True | o :: r => admissible s o /\ covered o /\ ok_run (fst (step s o)) r end.

Theorem run_inv ops : forall s, Inv s -> ok_run s ops -> Inv (fst (run s ops)).
Proof.
  induction ops as [|o r IH]; intros s I OK; cbn [run]; [exact I|].
  destruct OK as [A [C OK]]. pose proof (step_inv s o I A C) as I1.
  destruct (step s o) as [s1 x]. cbn [fst] in *. specialize (IH s1 I1 OK).
  destruct (run s1 r) as [s2 xs]. exact IH.
Qed.

Lemma inv_init : Inv init.
Proof. split; [intros q u [] | intros u q X; discriminate | intro q; constructor]. Qed.

(* navigation agrees with the list order *)
Lemma index_of_nth (l : list uid) : NoDup l -> forall n, n < length l -> index_of (@nth uid n l 0) l = Some n.
Proof.
  induction 1 as [|x l Hx Hl IH]; intros n L; cbn in L; [lia|].
  destruct n as [|n]; cbn [nth index_of]; [rewrite Nat.eqb_refl; reflexivity|].
  destruct (Nat.eqb_spec (nth n l 0) x) as [E|NE].
  - exfalso. apply Hx. rewrite <- E. apply nth_In. lia.
  - rewrite IH by lia. reflexivity.
Qed.

Theorem nav_agrees s q n : Inv s -> n < length (kids_of s q) ->
  let u := nth n (kids_of s q) 0 in
  par_of s u = Some q /\
  prev_of s u = (match n with 0 => NErr IndexError | S m => NUnit (nth m (kids_of s q) 0) end) /\
  next_of s u = (if Nat.eqb (S n) (length (kids_of s q)) then NErr IndexError else NUnit (nth (S n) (kids_of s q) 0)).
Proof.
  intros I L. cbv zeta.
  assert (P : par_of s (nth n (kids_of s q) 0) = Some q) by (apply (inv_listed s I); apply nth_In; assumption).
  split; [exact P|]. unfold prev_of, next_of. rewrite P.
  rewrite (index_of_nth (kids_of s q) (inv_nodup s I q) n L). split; [destruct n; reflexivity | reflexivity].
Qed.

Theorem detached_has_no_parent s u : Inv s -> (forall q, ~ In u (kids_of s q)) -> par_of s u = None.
Proof.
  intros I N. destruct (par_of s u) as [q|] eqn:E; [|reflexivity]. exfalso. apply (N q). apply (inv_parent s I). assumption.
Qed.
