(* Theorems about the unit-tree model (C13). *)
From PyrollLib Require Import UnitTree.
From Coq Require Import Lia.

Lemma alookup_aset {V} (l : list (uid * V)) k v k' :
  alookup (aset l k v) k' = if Nat.eqb k k' then Some v else alookup l k'.
Proof.
  induction l as [|[k0 v0] l IH]; cbn.
  - destruct (Nat.eqb k k'); reflexivity.
  - destruct (Nat.eqb_spec k0 k); cbn.
    + subst k0. destruct (Nat.eqb_spec k k'); reflexivity.
    + destruct (Nat.eqb_spec k0 k'); [subst; destruct (Nat.eqb_spec k k'); congruence | exact IH].
Qed.
Lemma alookup_adel {V} (l : list (uid * V)) k k' :
  alookup (adel l k) k' = if Nat.eqb k k' then None else alookup l k'.
Proof.
  induction l as [|[k0 v0] l IH]; cbn.
  - destruct (Nat.eqb k k'); reflexivity.
  - destruct (Nat.eqb_spec k0 k); cbn.
    + subst k0. rewrite IH. destruct (Nat.eqb_spec k k'); reflexivity.
    + rewrite IH. destruct (Nat.eqb_spec k0 k'); [subst; destruct (Nat.eqb_spec k k'); congruence | reflexivity].
Qed.

Lemma mem_In x l : mem x l = true <-> In x l.
Proof.
  unfold mem. rewrite existsb_exists. split.
  - intros [y [H E]]. apply Nat.eqb_eq in E. subst. assumption.
  - intro H. exists x. split; [assumption | apply Nat.eqb_refl].
Qed.
Lemma mem_false x l : mem x l = false <-> ~ In x l.
Proof. rewrite <- mem_In. destruct (mem x l); split; congruence. Qed.

Lemma par_set_par s u p v : par_of (set_par s u p) v = if Nat.eqb u v then p else par_of s v.
Proof.
  unfold par_of, set_par. cbn [par]. destruct p as [q|].
  - apply alookup_aset.
  - apply alookup_adel.
Qed.
Lemma kids_set_par s u p q : kids_of (set_par s u p) q = kids_of s q.
Proof. reflexivity. Qed.

Lemma par_detach D : forall s v, par_of (detach s D) v = if mem v D then None else par_of s v.
Proof.
  induction D as [|u D IH]; intros s v; cbn [detach fold_left mem existsb]; [reflexivity|].
  change (fold_left (fun a u0 => set_par a u0 None) D (set_par s u None)) with (detach (set_par s u None) D).
  rewrite IH, par_set_par. fold (mem v D). rewrite (Nat.eqb_sym v u).
  destruct (mem v D), (Nat.eqb u v); reflexivity.
Qed.
Lemma par_attach q A : forall s v, par_of (attach s q A) v = if mem v A then Some q else par_of s v.
Proof.
  induction A as [|u A IH]; intros s v; cbn [attach fold_left mem existsb]; [reflexivity|].
  change (fold_left (fun a u0 => set_par a u0 (Some q)) A (set_par s u (Some q))) with (attach (set_par s u (Some q)) q A).
  rewrite IH, par_set_par. fold (mem v A). rewrite (Nat.eqb_sym v u).
  destruct (mem v A), (Nat.eqb u v); reflexivity.
Qed.
Lemma kids_detach D : forall s q, kids_of (detach s D) q = kids_of s q.
Proof. induction D as [|u D IH]; intros s q; cbn [detach fold_left]; [reflexivity|]. etransitivity; [apply (IH (set_par s u None) q) | reflexivity]. Qed.
Lemma kids_attach o A : forall s q, kids_of (attach s o A) q = kids_of s q.
Proof. induction A as [|u A IH]; intros s q; cbn [attach fold_left]; [reflexivity|]. etransitivity; [apply (IH (set_par s u (Some o)) q) | reflexivity]. Qed.
Lemma kinds_detach D : forall s, kinds (detach s D) = kinds s.
Proof. induction D as [|u D IH]; intro s; cbn [detach fold_left]; [reflexivity|]. etransitivity; [apply (IH (set_par s u None)) | reflexivity]. Qed.
Lemma kinds_attach o A : forall s, kinds (attach s o A) = kinds s.
Proof. induction A as [|u A IH]; intro s; cbn [attach fold_left]; [reflexivity|]. etransitivity; [apply (IH (set_par s u (Some o))) | reflexivity]. Qed.

Lemma kids_set_kids s q l q' : kids_of (set_kids s q l) q' = if Nat.eqb q q' then l else kids_of s q'.
Proof. unfold kids_of, set_kids. cbn [kids]. rewrite alookup_aset. destruct (Nat.eqb q q'); reflexivity. Qed.

Lemma update_par s q l' D A v :
  par_of (update s q l' D A) v = if mem v A then Some q else if mem v D then None else par_of s v.
Proof. unfold update. rewrite par_attach, par_detach. reflexivity. Qed.
Lemma update_kids s q l' D A q' :
  kids_of (update s q l' D A) q' = if Nat.eqb q q' then l' else kids_of s q'.
Proof. unfold update. rewrite kids_attach, kids_detach, kids_set_kids. reflexivity. Qed.
Lemma update_kinds s q l' D A : kinds (update s q l' D A) = kinds s.
Proof. unfold update. rewrite kinds_attach, kinds_detach. reflexivity. Qed.

(* ------------------------------------------------------------------------------------------- *)
(* the consistency invariant of the property: every listed unit names the listing sequence as its parent,
   every unit naming a parent is listed there, no unit is listed twice *)
Record Inv (s : st) : Prop := {
  inv_listed : forall q u, In u (kids_of s q) -> par_of s u = Some q;
  inv_parent : forall u q, par_of s u = Some q -> In u (kids_of s q);
  inv_nodup : forall q, NoDup (kids_of s q) }.

Theorem update_inv s q l' D A :
  Inv s -> NoDup l' ->
  (forall u, In u l' -> In u A \/ (In u (kids_of s q) /\ ~ In u D)) ->
  (forall u, In u A -> In u l' /\ (par_of s u = None \/ In u (kids_of s q))) ->
  (forall u, In u D -> In u (kids_of s q)) ->
  (forall u, In u (kids_of s q) -> ~ In u l' -> In u D) ->
  Inv (update s q l' D A).
Proof.
  intros [I1 I2 I3] ND H1 H2 H3 H4. split.
  - intros q' u. rewrite update_kids, update_par. destruct (Nat.eqb_spec q q') as [E|NE].
    + subst q'. intro Hu. destruct (mem u A) eqn:MA; [reflexivity|].
      apply mem_false in MA. destruct (H1 u Hu) as [X|[X Y]]; [contradiction|].
      apply mem_false in Y. rewrite Y. apply I1. assumption.
    + intro Hu. pose proof (I1 q' u Hu) as P.
      destruct (mem u A) eqn:MA.
      * apply mem_In in MA. destruct (H2 u MA) as [_ [X|X]]; [congruence|]. rewrite (I1 q u X) in P. congruence.
      * destruct (mem u D) eqn:MD; [|assumption].
        apply mem_In in MD. pose proof (I1 q u (H3 u MD)). congruence.
  - intros u q'. rewrite update_kids, update_par.
    destruct (mem u A) eqn:MA.
    + intro E. inversion E; subst q'. rewrite Nat.eqb_refl. apply mem_In in MA. apply (H2 u MA).
    + destruct (mem u D) eqn:MD; [discriminate|]. intro P. pose proof (I2 u q' P) as X.
      destruct (Nat.eqb_spec q q') as [E|NE]; [|assumption]. subst q'.
      apply mem_false in MD. destruct (in_dec Nat.eq_dec u l') as [Y|Y]; [assumption|].
      exfalso. apply MD. apply H4; assumption.
  - intro q'. rewrite update_kids. destruct (Nat.eqb q q'); [assumption | apply I3].
Qed.

(* list facts used to instantiate update_inv *)
Lemma NoDup_app_iff {A} (a b : list A) :
  NoDup (a ++ b) <-> NoDup a /\ NoDup b /\ (forall x, In x a -> ~ In x b).
Proof.
  induction a as [|x a IH]; cbn.
  - split; [intro H; repeat split; [constructor | assumption | tauto] | tauto].
  - split.
    + intro H. inversion H as [|? ? Hx Hr]; subst. apply IH in Hr. destruct Hr as [Na [Nb Dj]].
      rewrite in_app_iff in Hx. repeat split.
      * constructor; tauto.
      * assumption.
      * intros y [E|Hy]; [subst; tauto | apply Dj; assumption].
    + intros [Na [Nb Dj]]. inversion Na as [|? ? Hx Hr]; subst. constructor.
      * rewrite in_app_iff. intros [X|X]; [contradiction | apply (Dj x); tauto].
      * apply IH. repeat split; try assumption. intros y Hy. apply Dj. right. assumption.
Qed.

Lemma split_nth (l : list uid) n : n < length l ->
  exists l1 l2, l = l1 ++ nth n l 0 :: l2 /\ length l1 = n /\
                remove_nth n l = l1 ++ l2 /\ forall v, replace_nth n l v = l1 ++ v :: l2.
Proof.
  revert n. induction l as [|x l IH]; intros n H; cbn in H; [lia|].
  destruct n as [|n].
  - exists [], l. repeat split.
  - destruct (IH n ltac:(lia)) as [l1 [l2 [E [L [R P]]]]].
    exists (x :: l1), l2. cbn [nth app length remove_nth replace_nth]. split; [|split; [|split]].
    + f_equal. exact E.
    + lia.
    + f_equal. exact R.
    + intro v. f_equal. apply P.
Qed.

Lemma skipn_skipn' {A} a b (l : list A) : skipn a (skipn b l) = skipn (b + a) l.
Proof.
  revert l. induction b as [|b IH]; intro l; [reflexivity|].
  destruct l as [|x l]; [destruct a; reflexivity|]. cbn [skipn plus]. apply IH.
Qed.

Lemma split_slice (l : list uid) lo hi : lo <= hi ->
  l = firstn lo l ++ firstn (hi - lo) (skipn lo l) ++ skipn hi l.
Proof.
  intro H. rewrite <- (firstn_skipn lo l) at 1. f_equal.
  rewrite <- (firstn_skipn (hi - lo) (skipn lo l)) at 1. f_equal.
  rewrite skipn_skipn'. f_equal. lia.
Qed.

Lemma insert_at_split (l : list uid) n v : exists l1 l2, l = l1 ++ l2 /\ insert_at n l v = l1 ++ v :: l2.
Proof.
  revert n. induction l as [|x l IH]; intro n.
  - exists [], []. destruct n; split; reflexivity.
  - destruct n as [|n]; [exists [], (x :: l); split; reflexivity|].
    destruct (IH n) as [l1 [l2 [E P]]]. exists (x :: l1), l2. cbn. rewrite P, <- E. split; reflexivity.
Qed.

Lemma remove_first_split x (l : list uid) : In x l -> exists l1 l2, l = l1 ++ x :: l2 /\ remove_first x l = l1 ++ l2.
Proof.
  induction l as [|y l IH]; cbn; [tauto|]. intros [E|H].
  - subst. rewrite Nat.eqb_refl. exists [], l. split; reflexivity.
  - destruct (Nat.eqb_spec x y); [subst; exists [], l; split; reflexivity|].
    destruct (IH H) as [l1 [l2 [E P]]]. exists (y :: l1), l2. cbn. rewrite P, <- E. split; reflexivity.
Qed.

Lemma norm_index_lt len i n : norm_index len i = Some n -> n < len.
Proof.
  unfold norm_index. destruct ((0 <=? i)%Z && (i <? Z.of_nat len)%Z)%bool eqn:A.
  - intro E. inversion E. apply andb_prop in A. destruct A as [A1 A2]. apply Z.leb_le in A1. apply Z.ltb_lt in A2. lia.
  - destruct ((i <? 0)%Z && (- Z.of_nat len <=? i)%Z)%bool eqn:B; [|discriminate].
    intro E. inversion E. apply andb_prop in B. destruct B as [B1 B2]. apply Z.ltb_lt in B1. apply Z.leb_le in B2. lia.
Qed.
