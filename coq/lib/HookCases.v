(* Comparison of the hook machine's observables with those recorded from the implementation
   (used only by generated correspondence cases). *)
From PyrollLib Require Import HookMachine.

Fixpoint value_eqb (a b : value) {struct a} : bool :=
  match a, b with
  | VNone, VNone | VInf, VInf | VNaN, VNaN => true
  | VInt x, VInt y => Z.eqb x y
  | VBool x, VBool y => Bool.eqb x y
  | VOpq x, VOpq y => Nat.eqb x y
  | VList x, VList y =>
      (fix go (l1 l2 : list value) {struct l1} : bool :=
         match l1, l2 with
         | [], [] => true
         | u :: r1, v :: r2 => (value_eqb u v && go r1 r2)%bool
         | _, _ => false
         end) x y
  | VFn0 x, VFn0 y | VFn1 x, VFn1 y => value_eqb x y
  | _, _ => false
  end.

Definition exn_eqb (a b : exn) : bool :=
  match a, b with
  | EAttr, EAttr | EValue, EValue | EType, EType | EKey, EKey | EZeroDiv, EZeroDiv | ECustom, ECustom
  | ERecursion, ERecursion | ESyntax, ESyntax => true
  | _, _ => false
  end.

Definition outcome_eqb (a b : outcome) : bool :=
  match a, b with Val x, Val y => value_eqb x y | Exn x, Exn y => exn_eqb x y | _, _ => false end.

Fixpoint leqb {A} (e : A -> A -> bool) (a b : list A) : bool :=
  match a, b with [], [] => true | x :: r, y :: s => (e x y && leqb e r s)%bool | _, _ => false end.

Definition obs_eqb (a b : obs) : bool :=
  match a, b with
  | ODone, ODone => true
  | OOut x, OOut y => outcome_eqb x y
  | OList x, OList y => leqb Nat.eqb x y
  | _, _ => false
  end.

Record hcase : Type := mkcase {
  hc_mro : cls -> list cls; hc_ops : list op; hc_outs : list obs;
  hc_cmp_trace : bool; hc_trace : list iid; hc_flags : list iid;
  hc_cache : list (key2 * value); hc_dict : list (key2 * value) }.

Definition kv_eqb (a b : key2 * value) : bool := (key2_eqb (fst a) (fst b) && value_eqb (snd a) (snd b))%bool.

(* model cache is one insertion-ordered list over all objects; the implementation's is per object:
   compare object by object (objects in increasing order) *)
Fixpoint objs_upto (n : nat) : list nat := match n with 0 => [] | S m => objs_upto m ++ [m] end.
Definition per_object (l : list (key2 * value)) : list (key2 * value) :=
  flat_map (fun o => filter (fun kv => Nat.eqb (fst (fst kv)) o) l) (objs_upto 40).

Fixpoint subset_nat (a b : list nat) : bool :=
  match a with [] => true | x :: r => (existsb (Nat.eqb x) b && subset_nat r b)%bool end.

(* dict comparison is order-insensitive (keys are unique): same length and every pair found *)
Definition dict_same (a b : list (key2 * value)) : bool :=
  (Nat.eqb (length a) (length b) && forallb (fun x => existsb (kv_eqb x) b) a)%bool.

Definition case_ok (S_ : sem) (fuel : nat) (c : hcase) : bool :=
  let '(st, outs) := run (hc_mro c) S_ fuel init (hc_ops c) in
  (leqb obs_eqb outs (hc_outs c)
   && (if hc_cmp_trace c then leqb Nat.eqb (rev (trace st)) (hc_trace c) else true)
   && subset_nat (cyc st) (hc_flags c) && subset_nat (hc_flags c) (cyc st)
   && leqb kv_eqb (per_object (cache st)) (hc_cache c)
   && dict_same (dict st) (hc_dict c))%bool.

Fixpoint hmismatches (S_ : sem) (fuel : nat) (cases : list hcase) (i : nat) : list nat :=
  match cases with
  | [] => []
  | c :: r => let rest := hmismatches S_ fuel r (S i) in if case_ok S_ fuel c then rest else i :: rest
  end.
