(* Strict monotonicity of the contour in the width coordinate, from the ordering of the junctions,
   with the isclose guards of the sampling loop modelled as an arbitrary boolean that never keeps a degenerate item. *)
From PyrollLib Require Import Expr ExprFacts Groove GrooveFacts.
From Coq Require Import Lra Lia.
Open Scope R_scope.

Fixpoint sdec (l : list R) : Prop :=      (* strictly decreasing *)
  match l with [] => True | a :: t => match t with [] => True | b :: _ => b < a /\ sdec t end end.
Fixpoint sinc (l : list R) : Prop :=      (* strictly increasing *)
  match l with [] => True | a :: t => match t with [] => True | b :: _ => a < b /\ sinc t end end.

Definition all_in (lo up : R) (l : list R) : Prop := Forall (fun x => lo < x <= up) l.

Lemma sdec_cons a l : sdec l -> Forall (fun x => x < a) l -> sdec (a :: l).
Proof. intros S F. destruct l as [|b t]; [exact I|]. inversion F; subst. split; assumption. Qed.

Lemma sdec_head_bound a l : sdec (a :: l) -> Forall (fun x => x < a) l.
Proof.
  revert a. induction l as [|b t IH]; intros a S; [constructor|].
  destruct S as [Hb S']. constructor; [exact Hb|].
  specialize (IH b S'). eapply Forall_impl; [|exact IH]. intros x Hx. cbn in Hx. lra.
Qed.

Lemma sdec_app l1 l2 : sdec l1 -> sdec l2 -> (forall x y, In x l1 -> In y l2 -> y < x) -> sdec (l1 ++ l2).
Proof.
  induction l1 as [|a t IH]; intros S1 S2 H; [exact S2|].
  cbn [app]. apply sdec_cons.
  - apply IH; [destruct t; [exact I | destruct S1; assumption] | exact S2 | intros x y Ix Iy; apply H; [right; exact Ix | exact Iy]].
  - apply Forall_forall. intros x Ix. apply in_app_or in Ix. destruct Ix as [Ix|Ix].
    + pose proof (sdec_head_bound a t S1) as F. rewrite Forall_forall in F. apply F. exact Ix.
    + apply H; [left; reflexivity | exact Ix].
Qed.

(* blocks (lo, up, l): l strictly decreasing with all elements in (lo, up]; consecutive blocks: up' <= lo and lo' <= lo *)
Fixpoint blocks_ok (prev_lo : R) (bs : list (R * R * list R)) : Prop :=
  match bs with
  | [] => True
  | (lo, up, l) :: rest => up <= prev_lo /\ lo <= prev_lo /\ sdec l /\ all_in lo up l /\ blocks_ok lo rest
  end.

Lemma blocks_below prev bs x : blocks_ok prev bs -> In x (flat_map (fun b => snd b) bs) -> x <= prev.
Proof.
  revert prev. induction bs as [|[[lo up] l] rest IH]; intros prev B I; [destruct I|].
  destruct B as [U [L [S [A B']]]]. cbn [flat_map snd] in I. apply in_app_or in I. destruct I as [I|I].
  - unfold all_in in A. rewrite Forall_forall in A. specialize (A x I). lra.
  - specialize (IH lo B' I). lra.
Qed.

Lemma blocks_sdec prev bs : blocks_ok prev bs -> sdec (flat_map (fun b => snd b) bs).
Proof.
  revert prev. induction bs as [|[[lo up] l] rest IH]; intros prev B; [exact I|].
  destruct B as [U [L [S [A B']]]]. cbn [flat_map snd]. apply sdec_app; [exact S | apply (IH lo B') |].
  intros x y Ix Iy. unfold all_in in A. rewrite Forall_forall in A. specialize (A x Ix).
  pose proof (blocks_below lo rest y B' Iy). lra.
Qed.

(* linspace samples, strictly decreasing when a > b, all within (b, a] *)
Lemma sample_strict a b n i j : (i < j)%nat -> (j < n)%nat -> b < a -> sample a b n j < sample a b n i.
Proof.
  intros Hij Hjn Hab. unfold sample.
  assert (Hn : 0 < INR n) by (apply lt_0_INR; lia).
  assert (H : INR i < INR j) by (apply lt_INR; exact Hij).
  assert (E : forall k, (b - a) * INR k / INR n = - ((a - b) / INR n) * INR k) by (intro k; field; lra).
  rewrite !E. assert (0 < (a - b) / INR n) by (apply Rdiv_lt_0_compat; lra). nra.
Qed.

Lemma sample_above a b n i : (i < n)%nat -> b < a -> b < sample a b n i.
Proof.
  intros Hi Hab. unfold sample.
  assert (Hn : 0 < INR n) by (apply lt_0_INR; lia).
  assert (H1 : INR i < INR n) by (apply lt_INR; exact Hi).
  assert (H0 : 0 <= INR i) by apply pos_INR.
  assert (T : INR i / INR n < 1).
  { apply (Rmult_lt_reg_r (INR n)); [exact Hn|]. unfold Rdiv. rewrite Rmult_assoc, Rinv_l by lra. lra. }
  replace ((b - a) * INR i / INR n) with ((b - a) * (INR i / INR n)) by (field; lra). nra.
Qed.

Lemma samples_sdec_from a b n k m : b < a -> (k + m <= n)%nat -> sdec (map (sample a b n) (seq k m)).
Proof.
  intros Hab. revert k. induction m as [|m IH]; intros k Hk; [exact I|].
  cbn [seq map]. apply sdec_cons; [apply IH; lia|].
  apply Forall_forall. intros x Ix. apply in_map_iff in Ix. destruct Ix as [j [E Ij]]. subst x. apply in_seq in Ij.
  apply sample_strict; [lia | lia | exact Hab].
Qed.

Lemma samples_block a b n : b < a -> sdec (map (sample a b n) (seq 0 n)) /\ all_in b a (map (sample a b n) (seq 0 n)).
Proof.
  intro Hab. split; [apply samples_sdec_from; [exact Hab | lia]|].
  apply Forall_forall. intros x Ix. apply in_map_iff in Ix. destruct Ix as [j [E Ij]]. subst x. apply in_seq in Ij.
  split; [apply sample_above; [lia | exact Hab]|].
  pose proof (sample_between_down a b n j ltac:(lia) ltac:(lra)). lra.
Qed.

(* the full polyline: strictly increasing when the right half is strictly decreasing and ends on the axis *)
Lemma sinc_map_opp l : sdec l -> sinc (map Ropp l).
Proof.
  induction l as [|a t IH]; intro S; [exact I|]. cbn [map]. destruct t as [|b t']; [exact I|].
  destruct S as [H S']. cbn [map] in *. split; [lra | apply IH; exact S'].
Qed.

Lemma sinc_app l1 l2 : sinc l1 -> sinc l2 -> (forall x y, In x l1 -> In y l2 -> x < y) -> sinc (l1 ++ l2).
Proof.
  induction l1 as [|a t IH]; intros S1 S2 H; [exact S2|].
  cbn [app]. assert (St : sinc t) by (destruct t; [exact I | destruct S1; assumption]).
  specialize (IH St S2 (fun x y Ix Iy => H x y (or_intror Ix) Iy)).
  destruct t as [|b t']; cbn [app] in *.
  - destruct l2 as [|c l2']; [exact I|]. split; [apply H; left; reflexivity | exact S2].
  - destruct S1 as [Hab _]. split; [exact Hab | exact IH].
Qed.

Lemma sinc_rev l : sdec l -> sinc (rev l).
Proof.
  induction l as [|a t IH]; intro S; [exact I|]. cbn [rev].
  assert (St : sdec t) by (destruct t; [exact I | destruct S; assumption]).
  pose proof (sdec_head_bound a t S) as F. rewrite Forall_forall in F.
  apply sinc_app; [apply IH; exact St | exact I |].
  intros x y Ix Iy. destruct Iy as [E|[]]. subst y. apply F. apply in_rev. exact Ix.
Qed.

Lemma full_contour_increasing (init : list (R * R)) (c : R * R) :
  sdec (map fst (init ++ [c])) -> fst c = 0 -> sinc (map fst (full_contour (init ++ [c]))).
Proof.
  intros S C0. unfold full_contour. rewrite removelast_last, map_app.
  rewrite map_map. cbn [mirror fst]. rewrite <- (map_map fst Ropp).
  rewrite map_rev.
  assert (Si : sdec (map fst init)).
  { rewrite map_app in S. clear C0. induction (map fst init) as [|a t IH]; [exact I|]. cbn [app] in S.
    destruct t as [|b t']; [exact I|]. cbn [app] in *. destruct S as [H S']. split; [exact H | apply IH; exact S']. }
  assert (Pos : forall x, In x (map fst init) -> 0 < x).
  { intros x Ix. rewrite map_app in S. cbn [map] in S. rewrite C0 in S.
    clear Si. induction (map fst init) as [|a t IH]; [destruct Ix|]. cbn [app] in S.
    pose proof (sdec_head_bound a (t ++ [0]) S) as F. rewrite Forall_forall in F.
    destruct Ix as [E|Ix].
    - subst a. apply F. apply in_or_app. right. left. reflexivity.
    - apply IH; [|exact Ix]. destruct (t ++ [0]) eqn:Q; [exact I|]. destruct S; assumption. }
  apply sinc_app.
  - apply sinc_map_opp. exact Si.
  - apply sinc_rev. exact S.
  - intros x y Ix Iy. apply in_map_iff in Ix. destruct Ix as [x' [E Ix]]. subst x. pose proof (Pos x' Ix) as Px.
    apply in_rev in Iy. rewrite map_app in Iy. apply in_app_or in Iy. destruct Iy as [Iy|Iy].
    + specialize (Pos y Iy). lra.
    + destruct Iy as [E|[]]. cbn in E. lra.
Qed.

Lemma sinc_head_bound a l : sinc (a :: l) -> Forall (fun x => a < x) l.
Proof.
  revert a. induction l as [|b t IH]; intros a S; [constructor|].
  destruct S as [Hb S']. constructor; [exact Hb|].
  specialize (IH b S'). eapply Forall_impl; [|exact IH]. intros x Hx. cbn in Hx. lra.
Qed.

(* single valued: no two vertices share an abscissa *)
Lemma sinc_NoDup l : sinc l -> NoDup l.
Proof.
  induction l as [|a t IH]; intro S; [constructor|].
  assert (St : sinc t) by (destruct t; [exact I | destruct S; assumption]).
  constructor; [|apply IH; exact St].
  intro Ia. pose proof (sinc_head_bound a t S) as F. rewrite Forall_forall in F. specialize (F a Ia). lra.
Qed.
