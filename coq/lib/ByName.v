(* create_groove_by_type_name (pyroll/core/grooves/__init__.py): normalisation of the type name and lookup among the
   classes of the pyroll.core.grooves namespace.  Characters are bytes; the separator class and lower-casing are the
   ASCII parts of Python's \s and str.lower (the correspondence run uses ASCII names). *)
From Coq Require Export String Ascii List Bool Arith.
Export ListNotations.

Definition is_sep (c : ascii) : bool :=
  let n := nat_of_ascii c in
  (Nat.leb 9 n && Nat.leb n 13) || (Nat.leb 28 n && Nat.leb n 32) || Nat.eqb n 45 || Nat.eqb n 95 || Nat.eqb n 46.   (* [\s\-_.] *)

Definition lower (c : ascii) : ascii :=
  let n := nat_of_ascii c in if Nat.leb 65 n && Nat.leb n 90 then ascii_of_nat (n + 32) else c.

Definition canon (s : list ascii) : list ascii := map lower (filter (fun c => negb (is_sep c)) s).

Fixpoint list_eqb (a b : list ascii) : bool :=
  match a, b with [] , [] => true | x :: a', y :: b' => Ascii.eqb x y && list_eqb a' b' | _, _ => false end.

Definition groove_suffix : list ascii := list_ascii_of_string "groove".

Definition ends_with (suffix s : list ascii) : bool :=
  list_eqb (skipn (length s - length suffix) s) suffix.

Definition normalise (s : list ascii) : list ascii :=
  let key := canon s in if ends_with groove_suffix key then key else key ++ groove_suffix.

(* first class (in namespace order) whose lower-cased name equals the key *)
Fixpoint lookup (classes : list string) (key : list ascii) : option string :=
  match classes with
  | [] => None
  | c :: rest => if list_eqb (map lower (list_ascii_of_string c)) key then Some c else lookup rest key
  end.

Definition by_name (classes : list string) (type_name : string) : option string :=
  lookup classes (normalise (list_ascii_of_string type_name)).

(* correspondence: (type name, index of the expected class + 1, or 0 for ValueError) *)
Fixpoint index_of (classes : list string) (c : string) (i : nat) : nat :=
  match classes with [] => 0 | x :: rest => if String.eqb x c then S i else index_of rest c (S i) end.
Definition by_name_index (classes : list string) (type_name : string) : nat :=
  match by_name classes type_name with None => 0 | Some c => index_of classes c 0 end.
Fixpoint byname_mismatches (classes : list string) (cases : list (string * nat)) (i : nat) : list nat :=
  match cases with
  | [] => []
  | (s, k) :: rest => (if Nat.eqb (by_name_index classes s) k then [] else [i]) ++ byname_mismatches classes rest (S i)
  end.
