(* Model of the iteration loop of Unit.solve (pyroll/core/unit/unit.py) for C05.
   One iteration evaluates the body (sub-units, re-evaluations, root hooks) to a vector of numbers - or
   raises; the loop runs `for i in range(1, max_iteration_count)`, compares the new vector with the stored
   one by `np.all(|cur - old| <= |old| * precision)` (IEEE semantics for nan/inf, numpy broadcasting of the
   initial scalar nan) and stores the new vector only when the test fails.  No proofs here. *)
From Coq Require Export List QArith Qabs Bool Arith.
Export ListNotations.

Inductive num : Type := Fin (q : Q) | NaN | PInf | NInf.

Definition nsub (a b : num) : num :=
  match a, b with
  | NaN, _ | _, NaN => NaN
  | Fin x, Fin y => Fin (x - y)
  | PInf, PInf | NInf, NInf => NaN
  | PInf, _ | _, NInf => PInf
  | NInf, _ | _, PInf => NInf
  end.
Definition nabs (a : num) : num := match a with Fin x => Fin (Qabs x) | NaN => NaN | _ => PInf end.
Definition nscale (a : num) (p : Q) : num :=     (* a * p for a >= 0 and a finite positive precision p *)
  match a with Fin x => Fin (x * p) | NaN => NaN | _ => PInf end.
Definition nle (a b : num) : bool :=
  match a, b with
  | NaN, _ | _, NaN => false
  | Fin x, Fin y => Qle_bool x y
  | NInf, _ | _, PInf => true
  | _, _ => false
  end.

Definition close1 (p : Q) (old cur : num) : bool := nle (nabs (nsub cur old)) (nscale (nabs old) p).

(* the stored previous results: the initial scalar nan, or a vector *)
Inductive stored : Type := SNan | SVec (v : list num).

Inductive verdict : Type := VTrue | VFalse | VShapeError.

Fixpoint all2 (p : Q) (old cur : list num) : verdict :=
  match old, cur with
  | [], [] => VTrue
  | o :: r, c :: s => match all2 p r s with
                      | VShapeError => VShapeError
                      | v => if close1 p o c then v else VFalse
                      end
  | _, _ => VShapeError
  end.

(* np.all(np.abs(cur - old) <= np.abs(old) * p) with numpy broadcasting *)
Definition close (p : Q) (old : stored) (cur : list num) : verdict :=
  match old with
  | SNan => match cur with [] => VTrue | _ => VFalse end           (* every comparison with nan is False *)
  | SVec [o] => if forallb (close1 p o) cur then VTrue else VFalse   (* a length-1 vector broadcasts *)
  | SVec v =>
      match cur with
      | [c] => if forallb (fun o => close1 p o c) v then VTrue else VFalse
      | _ => all2 p v cur
      end
  end.

Inductive iter : Type := IVec (v : list num) | IRaise.

Inductive outcome : Type :=
| Converged (i : nat)        (* 'Finished solving ... after i iterations' *)
| Warned                     (* 'exceeded the maximum iteration count' *)
| Raised (i : nat)           (* the body raised in iteration i *)
| ShapeError (i : nat).      (* numpy could not broadcast the two vectors in iteration i *)

(* remaining = number of iterations still allowed; i = number of the next iteration *)
Fixpoint loop (p : Q) (old : stored) (script : list iter) (i remaining : nat) {struct remaining} : outcome * stored * nat :=
  match remaining with
  | O => (Warned, old, (i - 1)%nat)
  | S r =>
      match script with
      | [] => (Raised i, old, i)                    (* script exhausted: treated as a raising body *)
      | IRaise :: _ => (Raised i, old, i)
      | IVec cur :: rest =>
          match close p old cur with
          | VTrue => (Converged i, old, i)
          | VShapeError => (ShapeError i, old, i)
          | VFalse => loop p (SVec cur) rest (S i) r
          end
      end
  end.

(* Unit.solve with max_iteration_count = maxit: iterations 1 .. maxit-1; returns outcome, stored vector
   afterwards, number of body evaluations *)
Definition solve (p : Q) (maxit : nat) (old : stored) (script : list iter) : outcome * stored * nat :=
  loop p old script 1%nat (maxit - 1)%nat.

(* ---- comparison with observations of the implementation ---- *)
Definition num_eqb (a b : num) : bool :=
  match a, b with Fin x, Fin y => Qeq_bool x y | NaN, NaN | PInf, PInf | NInf, NInf => true | _, _ => false end.
Fixpoint nums_eqb (a b : list num) : bool :=
  match a, b with [], [] => true | x :: r, y :: s => (num_eqb x y && nums_eqb r s)%bool | _, _ => false end.
Definition stored_eqb (a b : stored) : bool :=
  match a, b with SNan, SNan => true | SVec x, SVec y => nums_eqb x y | _, _ => false end.
Definition outcome_eqb (a b : outcome) : bool :=
  match a, b with
  | Converged x, Converged y | Raised x, Raised y | ShapeError x, ShapeError y => Nat.eqb x y
  | Warned, Warned => true
  | _, _ => false
  end.

(* a case: precision, max_iteration_count, list of solves on the same unit: (script, expected outcome, expected stored, expected evaluations) *)
Fixpoint solves_ok (p : Q) (maxit : nat) (old : stored) (l : list (list iter * outcome * stored * nat)) : bool :=
  match l with
  | [] => true
  | (script, eo, es, en) :: r =>
      let '(o, st, n) := solve p maxit old script in
      (* every solve starts from the scalar nan again (Unit.solve resets _old_results): nothing is carried over from the previous solve *)
      (outcome_eqb o eo && stored_eqb st es && Nat.eqb n en && solves_ok p maxit SNan r)%bool
  end.
Fixpoint smismatches (cases : list (Q * nat * list (list iter * outcome * stored * nat))) (i : nat) : list nat :=
  match cases with
  | [] => []
  | (p, m, l) :: r => let rest := smismatches r (S i) in if solves_ok p m SNan l then rest else i :: rest
  end.
