(* Facts about Sutherland-Hodgman clipping (Clip.v). *)
From PyrollLib Require Import Clip.
From Coq Require Import Lia Lqa.
Open Scope Q_scope.

Section Walk.
  Variable ins : qpt -> bool.
  Variable c : Q.

  (* every emitted vertex is a kept input vertex or the crossing of an edge whose ends lie on different sides *)
  Lemma sh_walk_origin prev l v : In v (sh_walk ins c prev l) ->
    (In v l /\ ins v = true) \/ (exists p q, In p (prev :: l) /\ In q l /\ ins p <> ins q /\ v = cross_x c p q).
  Proof.
    revert prev. induction l as [|q rest IH]; intros prev I; [destruct I|].
    cbn [sh_walk] in I. apply in_app_or in I. destruct I as [I|I].
    - unfold sh_edge in I. destruct (ins q) eqn:Eq, (ins prev) eqn:Ep; cbn in I.
      + destruct I as [E|[]]. subst. left. split; [left; reflexivity | exact Eq].
      + destruct I as [E|[E|[]]].
        * right. exists prev, q. repeat split; [left; reflexivity | left; reflexivity | congruence | symmetry; exact E].
        * subst. left. split; [left; reflexivity | exact Eq].
      + destruct I as [E|[]]. right. exists prev, q. repeat split; [left; reflexivity | left; reflexivity | congruence | symmetry; exact E].
      + destruct I.
    - destruct (IH q I) as [[A B]|[p [q' [A [B [C D]]]]]].
      + left. split; [right; exact A | exact B].
      + right. exists p, q'. repeat split; [right; exact A | right; exact B | exact C | exact D].
  Qed.

  Lemma sh_walk_keeps prev l q : In q l -> ins q = true -> In q (sh_walk ins c prev l).
  Proof.
    revert prev. induction l as [|a rest IH]; intros prev I E; [destruct I|].
    cbn [sh_walk]. apply in_or_app. destruct I as [H|H].
    - subst a. left. unfold sh_edge. rewrite E. apply in_or_app. right. left. reflexivity.
    - right. apply IH; assumption.
  Qed.

  Lemma sh_walk_all_inside prev l : ins prev = true -> (forall q, In q l -> ins q = true) -> sh_walk ins c prev l = l.
  Proof.
    revert prev. induction l as [|a rest IH]; intros prev P H; [reflexivity|].
    cbn [sh_walk]. unfold sh_edge. rewrite (H a (or_introl eq_refl)), P. cbn [app]. f_equal.
    apply IH; [apply H; left; reflexivity | intros q I; apply H; right; exact I].
  Qed.

  (* if both sides occur along the walk, a crossing is emitted *)
  Lemma sh_walk_crossing prev l : (exists a, In a (prev :: l) /\ ins a = true) -> (exists b, In b (prev :: l) /\ ins b = false) ->
    exists p q, ins p <> ins q /\ In (cross_x c p q) (sh_walk ins c prev l).
  Proof.
    revert prev. induction l as [|q rest IH]; intros prev [a [Ia Ea]] [b [Ib Eb]].
    - destruct Ia as [Ia|[]], Ib as [Ib|[]]. subst. congruence.
    - destruct (Bool.bool_dec (ins prev) (ins q)) as [Same|Diff].
      + assert (A : exists a', In a' (q :: rest) /\ ins a' = true).
        { destruct Ia as [H|H]; [subst a; exists q; split; [left; reflexivity | congruence] | exists a; split; assumption]. }
        assert (B : exists b', In b' (q :: rest) /\ ins b' = false).
        { destruct Ib as [H|H]; [subst b; exists q; split; [left; reflexivity | congruence] | exists b; split; assumption]. }
        destruct (IH q A B) as [p [q' [D I]]]. exists p, q'. split; [exact D|]. cbn [sh_walk]. apply in_or_app. right. exact I.
      + exists prev, q. split; [exact Diff|]. cbn [sh_walk]. apply in_or_app. left. unfold sh_edge.
        destruct (ins q) eqn:Q, (ins prev) eqn:P; try congruence; cbn; left; reflexivity.
  Qed.
End Walk.

(* ---------- the cyclic clip ---------- *)
Lemma last_in {A} (l : list A) (d : A) : l <> [] -> In (last l d) l.
Proof.
  induction l as [|a t IH]; intro N; [contradiction|]. destruct t as [|b t']; [left; reflexivity|].
  right. apply IH. discriminate.
Qed.

Lemma sh_clip_origin ins c l v : In v (sh_clip ins c l) ->
  (In v l /\ ins v = true) \/ (exists p q, In p l /\ In q l /\ ins p <> ins q /\ v = cross_x c p q).
Proof.
  destruct l as [|p0 t]; [intros []|]. unfold sh_clip. intro I.
  destruct (sh_walk_origin ins c _ _ v I) as [H|[p [q [A [B [C D]]]]]]; [left; exact H|].
  right. exists p, q. repeat split; try assumption.
  destruct A as [A|A]; [|exact A]. subst p. apply last_in. discriminate.
Qed.

Lemma sh_clip_keeps ins c l q : In q l -> ins q = true -> In q (sh_clip ins c l).
Proof. destruct l as [|p0 t]; [intros []|]. unfold sh_clip. apply sh_walk_keeps. Qed.

Lemma sh_clip_all_inside ins c l : (forall q, In q l -> ins q = true) -> sh_clip ins c l = l.
Proof.
  destruct l as [|p0 t]; [reflexivity|]. intro H. unfold sh_clip. apply sh_walk_all_inside; [|exact H].
  apply H. apply last_in. discriminate.
Qed.

Lemma sh_clip_crossing ins c l : (exists a, In a l /\ ins a = true) -> (exists b, In b l /\ ins b = false) ->
  exists p q, ins p <> ins q /\ In (cross_x c p q) (sh_clip ins c l).
Proof.
  destruct l as [|p0 t]; [intros [a [[] _]]|]. intros [a [Ia Ea]] [b [Ib Eb]]. unfold sh_clip.
  apply sh_walk_crossing; [exists a | exists b]; (split; [right; assumption | assumption]).
Qed.

(* ---------- the half planes x <= c, x >= c ---------- *)
Lemma le_side_iff c p : le_side c p = true <-> fst p <= c.
Proof. unfold le_side. apply Qle_bool_iff. Qed.
Lemma ge_side_iff c p : ge_side c p = true <-> c <= fst p.
Proof. unfold ge_side. apply Qle_bool_iff. Qed.

Lemma clip_le_bound c l v : In v (clip_le c l) -> fst v <= c.
Proof.
  intro I. destruct (sh_clip_origin _ _ _ _ I) as [[_ H]|[p [q [_ [_ [_ E]]]]]].
  - apply le_side_iff. exact H.
  - subst v. unfold cross_x. cbn [fst]. lra.
Qed.

Lemma clip_ge_bound c l v : In v (clip_ge c l) -> c <= fst v.
Proof.
  intro I. destruct (sh_clip_origin _ _ _ _ I) as [[_ H]|[p [q [_ [_ [_ E]]]]]].
  - apply ge_side_iff. exact H.
  - subst v. unfold cross_x. cbn [fst]. lra.
Qed.

(* confinement at vertex level: an emitted vertex is an input vertex or lies on an input edge, between its end points *)
Lemma cross_between c p q : fst p <= c -> c <= fst q -> fst p < fst q ->
  Qmin (snd p) (snd q) <= snd (cross_x c p q) <= Qmax (snd p) (snd q).
Proof.
  intros A B D0. unfold cross_x. cbn [snd fst].
  set (t := (c - fst p) / (fst q - fst p)).
  assert (D : 0 < fst q - fst p) by lra.
  assert (T0 : 0 <= t) by (unfold t; apply Qle_shift_div_l; [exact D | lra]).
  assert (T1 : t <= 1) by (unfold t; apply Qle_shift_div_r; [exact D | lra]).
  assert (E : snd p + (c - fst p) * ((snd q - snd p) / (fst q - fst p)) == snd p + t * (snd q - snd p)) by (unfold t; field; lra).
  rewrite E. destruct (Q.min_spec (snd p) (snd q)) as [[H1 H2]|[H1 H2]], (Q.max_spec (snd p) (snd q)) as [[H3 H4]|[H3 H4]]; rewrite H2, H4; nra.
Qed.

Lemma cross_between' c p q : c <= fst p -> fst q <= c -> fst q < fst p ->
  Qmin (snd p) (snd q) <= snd (cross_x c p q) <= Qmax (snd p) (snd q).
Proof.
  intros A B D0. unfold cross_x. cbn [snd fst].
  set (t := (c - fst p) / (fst q - fst p)).
  assert (D : fst q - fst p < 0) by lra.
  assert (E0 : t == (fst p - c) / (fst p - fst q)) by (unfold t; field; split; lra).
  assert (T0 : 0 <= t) by (rewrite E0; apply Qle_shift_div_l; lra).
  assert (T1 : t <= 1) by (rewrite E0; apply Qle_shift_div_r; lra).
  assert (E : snd p + (c - fst p) * ((snd q - snd p) / (fst q - fst p)) == snd p + t * (snd q - snd p)) by (unfold t; field; lra).
  rewrite E. destruct (Q.min_spec (snd p) (snd q)) as [[H1 H2]|[H1 H2]], (Q.max_spec (snd p) (snd q)) as [[H3 H4]|[H3 H4]]; rewrite H2, H4; nra.
Qed.

Lemma clip_le_confined c l v : In v (clip_le c l) ->
  In v l \/ (exists p q, In p l /\ In q l /\ fst v = c /\ Qmin (fst p) (fst q) <= c <= Qmax (fst p) (fst q) /\
                        Qmin (snd p) (snd q) <= snd v <= Qmax (snd p) (snd q)).
Proof.
  intro I. destruct (sh_clip_origin _ _ _ _ I) as [[H _]|[p [q [A [B [C E]]]]]]; [left; exact H|].
  right. exists p, q. subst v. repeat split; try assumption.
  - destruct (le_side c p) eqn:P, (le_side c q) eqn:Q; try congruence.
    + apply le_side_iff in P. pose proof (Q.le_min_l (fst p) (fst q)). lra.
    + apply le_side_iff in Q. pose proof (Q.le_min_r (fst p) (fst q)). lra.
  - destruct (le_side c p) eqn:P, (le_side c q) eqn:Q; try congruence.
    + assert (~ fst q <= c) by (intro H; apply le_side_iff in H; congruence). pose proof (Q.le_max_r (fst p) (fst q)). lra.
    + assert (~ fst p <= c) by (intro H; apply le_side_iff in H; congruence). pose proof (Q.le_max_l (fst p) (fst q)). lra.
  - destruct (le_side c p) eqn:P, (le_side c q) eqn:Q; try congruence.
    + apply le_side_iff in P. assert (~ fst q <= c) by (intro H; apply le_side_iff in H; congruence). apply cross_between; lra.
    + apply le_side_iff in Q. assert (~ fst p <= c) by (intro H; apply le_side_iff in H; congruence). apply cross_between'; lra.
  - destruct (le_side c p) eqn:P, (le_side c q) eqn:Q; try congruence.
    + apply le_side_iff in P. assert (~ fst q <= c) by (intro H; apply le_side_iff in H; congruence). apply cross_between; lra.
    + apply le_side_iff in Q. assert (~ fst p <= c) by (intro H; apply le_side_iff in H; congruence). apply cross_between'; lra.
Qed.

Lemma clip_ge_confined c l v : In v (clip_ge c l) ->
  In v l \/ (exists p q, In p l /\ In q l /\ fst v = c /\ Qmin (fst p) (fst q) <= c <= Qmax (fst p) (fst q) /\
                        Qmin (snd p) (snd q) <= snd v <= Qmax (snd p) (snd q)).
Proof.
  intro I. destruct (sh_clip_origin _ _ _ _ I) as [[H _]|[p [q [A [B [C E]]]]]]; [left; exact H|].
  right. exists p, q. subst v.
  assert (Sides : (c <= fst p /\ fst q < c) \/ (fst p < c /\ c <= fst q)).
  { destruct (ge_side c p) eqn:P, (ge_side c q) eqn:Q; try congruence.
    - left. split; [apply ge_side_iff; exact P|]. destruct (Qlt_le_dec (fst q) c) as [L|L]; [exact L|]. apply ge_side_iff in L. congruence.
    - right. split; [|apply ge_side_iff; exact Q]. destruct (Qlt_le_dec (fst p) c) as [L|L]; [exact L|]. apply ge_side_iff in L. congruence. }
  repeat split; try assumption.
  - pose proof (Q.le_min_l (fst p) (fst q)). pose proof (Q.le_min_r (fst p) (fst q)). destruct Sides; lra.
  - pose proof (Q.le_max_l (fst p) (fst q)). pose proof (Q.le_max_r (fst p) (fst q)). destruct Sides; lra.
  - destruct Sides as [[S1 S2]|[S1 S2]]; [apply cross_between'; lra | apply cross_between; lra].
  - destruct Sides as [[S1 S2]|[S1 S2]]; [apply cross_between'; lra | apply cross_between; lra].
Qed.

(* ---------- the strip ---------- *)
Lemma clip_strip_within w l v : 0 <= w -> In v (clip_strip w l) -> - (w / 2) <= fst v <= w / 2.
Proof.
  intros W I. assert (Hh : 0 <= w / 2) by (apply Qle_shift_div_l; lra).
  unfold clip_strip in I. split; [apply (clip_ge_bound _ _ _ I)|].
  destruct (sh_clip_origin _ _ _ _ I) as [[H _]|[p [q [_ [_ [_ E]]]]]].
  - apply (clip_le_bound _ _ _ H).
  - subst v. unfold cross_x. cbn [fst]. lra.
Qed.

(* under-filled: a polygon inside the strip is returned unchanged *)
Lemma clip_strip_identity w l : (forall p, In p l -> - (w / 2) <= fst p <= w / 2) -> clip_strip w l = l.
Proof.
  intro H. unfold clip_strip, clip_le, clip_ge.
  rewrite (sh_clip_all_inside (le_side (w / 2))) by (intros q I; apply le_side_iff; apply H; exact I).
  apply sh_clip_all_inside. intros q I. apply ge_side_iff. apply H. exact I.
Qed.

(* filled or over-filled: the clipped polygon has vertices on both strip borders *)
Lemma clip_strip_reaches w l : 0 <= w -> (exists a, In a l /\ w / 2 <= fst a) -> (exists b, In b l /\ fst b <= - (w / 2)) ->
  (exists v, In v (clip_strip w l) /\ fst v == w / 2) /\ (exists u, In u (clip_strip w l) /\ fst u == - (w / 2)).
Proof.
  intros W [a [Ia Ha]] [b [Ib Hb]]. assert (Hh : 0 <= w / 2) by (apply Qle_shift_div_l; lra).
  assert (R : exists v, In v (clip_le (w / 2) l) /\ fst v == w / 2).
  { destruct (Qlt_le_dec (w / 2) (fst a)) as [Out|In_].
    - destruct (sh_clip_crossing (le_side (w / 2)) (w / 2) l) as [p [q [_ I]]].
      + exists b. split; [exact Ib | apply le_side_iff; lra].
      + exists a. split; [exact Ia|]. destruct (le_side (w / 2) a) eqn:E; [apply le_side_iff in E; lra | reflexivity].
      + exists (cross_x (w / 2) p q). split; [exact I | unfold cross_x; cbn [fst]; reflexivity].
    - exists a. split; [apply sh_clip_keeps; [exact Ia | apply le_side_iff; lra] | lra]. }
  destruct R as [v [Iv Hv]].
  assert (Kb : In b (clip_le (w / 2) l)) by (apply sh_clip_keeps; [exact Ib | apply le_side_iff; lra]).
  split.
  - exists v. split; [|exact Hv]. unfold clip_strip. apply sh_clip_keeps; [exact Iv | apply ge_side_iff; lra].
  - destruct (Qlt_le_dec (fst b) (- (w / 2))) as [Out|In_].
    + destruct (sh_clip_crossing (ge_side (- (w / 2))) (- (w / 2)) (clip_le (w / 2) l)) as [p [q [_ I]]].
      * exists v. split; [exact Iv | apply ge_side_iff; lra].
      * exists b. split; [exact Kb|]. destruct (ge_side (- (w / 2)) b) eqn:E; [apply ge_side_iff in E; lra | reflexivity].
      * exists (cross_x (- (w / 2)) p q). split; [exact I | unfold cross_x; cbn [fst]; reflexivity].
    + exists b. split; [unfold clip_strip; apply sh_clip_keeps; [exact Kb | apply ge_side_iff; lra] | lra].
Qed.

(* extremes of a list *)
Lemma qmax_l_ge d l : d <= qmax_l d l.
Proof. unfold qmax_l. revert d. induction l as [|a t IH]; intro d; cbn [fold_left]; [lra|]. specialize (IH (Qmax d a)). pose proof (Q.le_max_l d a). lra. Qed.
Lemma qmax_l_in d l x : In x l -> x <= qmax_l d l.
Proof.
  unfold qmax_l. revert d. induction l as [|a t IH]; intros d I; [destruct I|]. cbn [fold_left]. destruct I as [E|I].
  - subst a. pose proof (qmax_l_ge (Qmax d x) t) as H. unfold qmax_l in H. pose proof (Q.le_max_r d x). lra.
  - apply IH. exact I.
Qed.
Lemma qmax_l_upper d l m : d <= m -> (forall x, In x l -> x <= m) -> qmax_l d l <= m.
Proof.
  unfold qmax_l. revert d. induction l as [|a t IH]; intros d Hd H; cbn [fold_left]; [exact Hd|].
  apply IH; [apply Q.max_lub; [exact Hd | apply H; left; reflexivity] | intros x I; apply H; right; exact I].
Qed.
Lemma qmin_l_le d l : qmin_l d l <= d.
Proof. unfold qmin_l. revert d. induction l as [|a t IH]; intro d; cbn [fold_left]; [lra|]. specialize (IH (Qmin d a)). pose proof (Q.le_min_l d a). lra. Qed.
Lemma qmin_l_in d l x : In x l -> qmin_l d l <= x.
Proof.
  unfold qmin_l. revert d. induction l as [|a t IH]; intros d I; [destruct I|]. cbn [fold_left]. destruct I as [E|I].
  - subst a. pose proof (qmin_l_le (Qmin d x) t) as H. unfold qmin_l in H. pose proof (Q.le_min_r d x). lra.
  - apply IH. exact I.
Qed.
Lemma qmin_l_lower d l m : m <= d -> (forall x, In x l -> m <= x) -> m <= qmin_l d l.
Proof.
  unfold qmin_l. revert d. induction l as [|a t IH]; intros d Hd H; cbn [fold_left]; [exact Hd|].
  apply IH; [apply Q.min_glb; [exact Hd | apply H; left; reflexivity] | intros x I; apply H; right; exact I].
Qed.

Lemma max_of_eq l m : (forall x, In x l -> x <= m) -> (exists x, In x l /\ x == m) -> max_of l == m.
Proof.
  intros U [x [I E]]. destruct l as [|a t]; [destruct I|]. cbn [max_of]. apply Qle_antisym.
  - apply qmax_l_upper; [apply U; left; reflexivity | intros y Iy; apply U; right; exact Iy].
  - destruct I as [H|H]; [subst a; pose proof (qmax_l_ge x t); lra | pose proof (qmax_l_in a t x H); lra].
Qed.
Lemma min_of_eq l m : (forall x, In x l -> m <= x) -> (exists x, In x l /\ x == m) -> min_of l == m.
Proof.
  intros U [x [I E]]. destruct l as [|a t]; [destruct I|]. cbn [min_of]. apply Qle_antisym.
  - destruct I as [H|H]; [subst a; pose proof (qmin_l_le x t); lra | pose proof (qmin_l_in a t x H); lra].
  - apply qmin_l_lower; [apply U; left; reflexivity | intros y Iy; apply U; right; exact Iy].
Qed.

(* the prescribed width is met exactly whenever the opening is at least as wide *)
Theorem clip_strip_width w l : 0 <= w -> (exists a, In a l /\ w / 2 <= fst a) -> (exists b, In b l /\ fst b <= - (w / 2)) ->
  width_of (clip_strip w l) == w.
Proof.
  intros W A B. destruct (clip_strip_reaches w l W A B) as [[v [Iv Hv]] [u [Iu Hu]]].
  unfold width_of.
  rewrite (max_of_eq (xs (clip_strip w l)) (w / 2)).
  - rewrite (min_of_eq (xs (clip_strip w l)) (- (w / 2))).
    + field.
    + intros x I. apply in_map_iff in I. destruct I as [p [E I]]. subst x. apply (clip_strip_within w l p W I).
    + exists (fst u). split; [apply in_map; exact Iu | exact Hu].
  - intros x I. apply in_map_iff in I. destruct I as [p [E I]]. subst x. apply (clip_strip_within w l p W I).
  - exists (fst v). split; [apply in_map; exact Iv | exact Hv].
Qed.

(* the over-width tests of the pass (on the clipped section, whose width is 2 min(h, H)) and of Profile.from_groove (on the
   bounds -H, H of the opening) agree: h = half the prescribed width, H = half the width of the (symmetric) opening *)
Lemma overwidth_guards_agree h H : 0 < H -> 0 <= h ->
  (2 * Qmin h H * (101 # 100) < 2 * h <-> h > H * (101 # 100)) /\
  (h > H * (101 # 100) <-> (- h < - H * (101 # 100) \/ h > H * (101 # 100))).
Proof.
  intros P Ph. split; [|split; [intro; right; assumption | intros [A|A]; lra]].
  destruct (Q.min_spec h H) as [[H1 H2]|[H1 H2]]; rewrite H2; split; intro A; lra.
Qed.
