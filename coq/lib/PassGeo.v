(* Affine operation sequences on polylines (target of fragment T-K: contour_lines of roll passes) and their
   geometric lemmas (C09, C08). *)
From PyrollLib Require Export Geo2D Expr.
Open Scope R_scope.

Inductive gop : Type := OTranslateY (e : expr) | ORotateDeg (z : Z) | OReverse.

Definition apply_op (rho : env) (o : gop) (l : list pt) : list pt :=
  match o with
  | OTranslateY e => map (translate (0, eval rho e)) l
  | ORotateDeg z => map (rot (deg (IZR z))) l
  | OReverse => rev l
  end.
Definition apply_ops (rho : env) (ops : list gop) (l : list pt) : list pt :=
  fold_left (fun acc o => apply_op rho o acc) ops l.

Lemma apply_ops_app rho a b l : apply_ops rho (a ++ b) l = apply_ops rho b (apply_ops rho a l).
Proof. unfold apply_ops. apply fold_left_app. Qed.

Lemma rot_2PI p : rot (2 * PI) p = p.
Proof. unfold rot. rewrite cos_2PI, sin_2PI. destruct p as [x y]. cbn. f_equal; ring. Qed.

Lemma rot_period a p : rot (a + 2 * PI) p = rot a p.
Proof. rewrite <- rot_add. rewrite rot_2PI. reflexivity. Qed.

Lemma deg_180 : deg 180 = PI.
Proof. unfold deg. field. Qed.
Lemma deg_360 : deg 360 = 2 * PI.
Proof. unfold deg. field. Qed.

Lemma map_rot_PI_involutive l : map (rot PI) (map (rot PI) l) = l.
Proof.
  rewrite rot_compose. replace (PI + PI) with (2 * PI) by ring.
  rewrite <- (map_id l) at 2. apply map_ext. intro p. apply rot_2PI.
Qed.

(* a contour built as X ++ [rotate a] is the rotation of the contour built as X *)
Lemma apply_rotated rho ops z l :
  apply_ops rho (ops ++ [ORotateDeg z]) l = map (rot (deg (IZR z))) (apply_ops rho ops l).
Proof. rewrite apply_ops_app. reflexivity. Qed.

(* two contours sharing the prefix X and ending in rotations by a and b: the second is the first turned by b - a *)
Lemma rotated_pair rho ops a b l :
  apply_ops rho (ops ++ [ORotateDeg b]) l =
  map (rot (deg (IZR b - IZR a))) (apply_ops rho (ops ++ [ORotateDeg a]) l).
Proof.
  rewrite !apply_rotated, rot_compose. apply map_ext. intro p. f_equal. unfold deg. field.
Qed.

Lemma rot_deg_period a p : rot (deg (a + 360)) p = rot (deg a) p.
Proof. replace (deg (a + 360)) with (deg a + 2 * PI) by (unfold deg; field). apply rot_period. Qed.
