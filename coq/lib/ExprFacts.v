(* Proof helpers for theorems about generated implementation chains. *)
From PyrollLib Require Export Expr.
From Coq Require Export Lra Field.
Open Scope R_scope.

Ltac unfold_impls H :=
  repeat match type of H with
  | context [i_guard ?c] => unfold c in H
  | context [i_body ?c] => unfold c in H
  end.

(* H : resolve rho g [I1; ...; In] = CVal x  (chain constant already unfolded).
   Splits into one goal per implementation that can have produced x. *)
Ltac chain_inv H :=
  cbv [resolve] in H; unfold_impls H;
  cbv [guard_eval forallb gatom_eval i_guard i_body andb negb] in H; cbn [eval] in H;
  repeat match type of H with context [if ?b then _ else _] => destruct b eqn:? end;
  try discriminate H; injection H as H.

(* spec-level von Mises equivalent stress and mean stress *)
Definition von_mises (s1 s2 s3 : R) : R :=
  sqrt (((s1 - s2) ^ 2 + (s2 - s3) ^ 2 + (s3 - s1) ^ 2) / 2).
Definition mean3 (s1 s2 s3 : R) : R := (s1 + s2 + s3) / 3.

Lemma von_mises_swap12 s1 s2 s3 : von_mises s1 s2 s3 = von_mises s2 s1 s3.
Proof. unfold von_mises. f_equal. field. Qed.
Lemma von_mises_rot s1 s2 s3 : von_mises s1 s2 s3 = von_mises s2 s3 s1.
Proof. unfold von_mises. f_equal. field. Qed.
Lemma von_mises_hydrostatic s : von_mises s s s = 0.
Proof. unfold von_mises. replace (((s - s) ^ 2 + (s - s) ^ 2 + (s - s) ^ 2) / 2) with 0 by field. apply sqrt_0. Qed.
Lemma von_mises_uniaxial s : von_mises s 0 0 = Rabs s.
Proof.
  unfold von_mises. replace (((s - 0) ^ 2 + (0 - 0) ^ 2 + (0 - s) ^ 2) / 2) with (Rsqr s) by (unfold Rsqr; field).
  apply sqrt_Rsqr_abs.
Qed.
(* shifting all three principal stresses (superposed hydrostatic state) does not change it *)
Lemma von_mises_shift s1 s2 s3 p : von_mises (s1 + p) (s2 + p) (s3 + p) = von_mises s1 s2 s3.
Proof. unfold von_mises. f_equal. field. Qed.
Lemma von_mises_nonneg s1 s2 s3 : 0 <= von_mises s1 s2 s3.
Proof. apply sqrt_pos. Qed.

Lemma sqrt_prod_ratio A h w : 0 < A -> 0 < h -> 0 < w ->
  sqrt (A * h / w) * sqrt (A * w / h) = A.
Proof.
  intros HA Hh Hw. rewrite <- sqrt_mult_alt.
  - replace (A * h / w * (A * w / h)) with (Rsqr A) by (unfold Rsqr; field; split; lra).
    apply sqrt_Rsqr; lra.
  - apply Rlt_le. apply Rdiv_lt_0_compat; [apply Rmult_lt_0_compat|]; assumption.
Qed.

Lemma sqrt_ratio_ratio A h w : 0 < A -> 0 < h -> 0 < w ->
  sqrt (A * w / h) / sqrt (A * h / w) = w / h.
Proof.
  intros HA Hh Hw.
  assert (P1 : 0 < A * w / h) by (apply Rdiv_lt_0_compat; [apply Rmult_lt_0_compat|]; assumption).
  assert (P2 : 0 < A * h / w) by (apply Rdiv_lt_0_compat; [apply Rmult_lt_0_compat|]; assumption).
  rewrite <- sqrt_div_alt by assumption.
  replace (A * w / h / (A * h / w)) with (Rsqr (w / h)) by (unfold Rsqr; field; repeat split; lra).
  apply sqrt_Rsqr. apply Rlt_le, Rdiv_lt_0_compat; assumption.
Qed.

(* generic facts about chains *)
Lemma resolve_in rho g ch v : resolve rho g ch = CVal v ->
  exists j e, In j ch /\ i_body j = Some e /\ v = eval rho e /\ guard_eval g (i_guard j) = true.
Proof.
  induction ch as [|i r IH]; cbn [resolve]; [discriminate|].
  destruct (guard_eval g (i_guard i)) eqn:G.
  - destruct (i_body i) as [e|] eqn:B; [|discriminate]. intro H. inversion H; subst.
    exists i, e. repeat split; try assumption. left. reflexivity.
  - intro H. destruct (IH H) as [j [e [I [B [V G']]]]]. exists j, e. repeat split; try assumption. right. assumption.
Qed.

Lemma resolve_total rho g ch i :
  (forall j, In j ch -> i_body j <> None) -> i_guard i = [] -> i_body i <> None ->
  exists v, resolve rho g (ch ++ [i]) = CVal v.
Proof.
  intros H G B. induction ch as [|j r IH]; cbn [app resolve].
  - rewrite G. cbn. destruct (i_body i) as [e|]; [eexists; reflexivity | congruence].
  - destruct (guard_eval g (i_guard j)).
    + destruct (i_body j) as [e|] eqn:E; [eexists; reflexivity|]. exfalso. apply (H j); [left; reflexivity | assumption].
    + apply IH. intros k Hk. apply H. right. assumption.
Qed.

Definition body_is_int (zs : list Z) (i : impl) : bool :=
  match i_body i with Some (CstZ z) => existsb (Z.eqb z) zs | _ => false end.

Fixpoint chain_total (ch : list impl) : bool :=
  match ch with
  | [] => false
  | [i] => match i_guard i, i_body i with [], Some _ => true | _, _ => false end
  | i :: r => match i_body i with Some _ => chain_total r | None => false end
  end.

Lemma chain_total_sound rho g ch : chain_total ch = true -> exists v, resolve rho g ch = CVal v.
Proof.
  induction ch as [|i r IH]; [discriminate|]. destruct r as [|j r'].
  - cbn [chain_total resolve]. destruct (i_guard i) eqn:G; [|discriminate]. destruct (i_body i) eqn:B; [|discriminate].
    intros _. cbn. eexists. reflexivity.
  - intro H. change (chain_total (i :: j :: r')) with (match i_body i with Some _ => chain_total (j :: r') | None => false end) in H.
    destruct (i_body i) as [e|] eqn:B; [|discriminate].
    cbn [resolve]. destruct (guard_eval g (i_guard i)); [rewrite B; eexists; reflexivity | apply IH; assumption].
Qed.

(* environment update, for "supplying a derived value to a fresh object" *)
Definition upd (rho : env) (x : string) (v : R) : env := fun y => if String.eqb x y then v else rho y.

(* every implementation of a chain, evaluated under rho, gives v - whichever of them is consulted *)
Definition all_impls_give (rho : env) (ch : list impl) (v : R) : Prop :=
  forall i e, In i ch -> i_body i = Some e -> eval rho e = v.
