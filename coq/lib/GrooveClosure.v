(* Closure of the contour (no step at z4) in terms of the resolved radii and angles. *)
From PyrollLib Require Import Expr ExprFacts Groove GrooveFacts.
From Coq Require Import Lra Lia Nsatz.
Open Scope string_scope.
Open Scope R_scope.

Section Closure.
  Variable rho : env.
  Notation r1 := (rho "r1"). Notation r2 := (rho "r2"). Notation r3 := (rho "r3"). Notation r4 := (rho "r4").
  Notation a3 := (rho "alpha3"). Notation a4 := (rho "alpha4").
  Notation fa := (rho "flank_angle"). Notation pa := (rho "pad_angle").
  Notation uw := (rho "usable_width"). Notation egw := (rho "even_ground_width").
  Notation dp := (rho "depth"). Notation ind := (rho "indent").
  Hypothesis Cf : 0 < cos fa.
  Hypothesis Ch : cos (halpha1 rho / 2) <> 0.

  (* the flank line is the line through the face corner (usable_width / 2, 0) with inclination flank_angle *)
  Lemma flank_line_form z : hf_flank rho z = tan fa * (hz2 rho - z).
  Proof.
    assert (E : hf_flank rho (hz2 rho) = 0).
    { unfold hf_flank, hy3, hz3, hy12, hz12, hy1, hz1, hl12, halpha1 in *.
      set (f := rho "flank_angle") in *. set (p := rho "pad_angle") in *. set (r := rho "r1"). set (z2 := hz2 rho).
      set (h := (f + p) / 2) in *.
      assert (Ef : f = 2 * h - p) by (unfold h; field).
      unfold tan. rewrite Ef. rewrite Ef in Cf.
      rewrite sin_minus, cos_minus in *. rewrite sin_2a, cos_2a in *.
      pose proof (sc1 h) as Sh. pose proof (sc1 p) as Sp.
      set (sh := sin h) in *. set (ch := cos h) in *. set (sp := sin p) in *. set (cp := cos p) in *.
      field_simplify_eq; [|split; lra]. simpl. nsatz. }
    unfold hf_flank in *. lra.
  Qed.

  Lemma closure_iff : hf_flank rho (hz4 rho) = hy4 rho <-> hy4 rho = tan fa * (hz2 rho - hz4 rho).
  Proof. rewrite flank_line_form. split; intro H; lra. Qed.

  (* the tangent point of the corner rounding lies l12 along the flank from the corner *)
  Lemma y3_along_flank : hy3 rho = hl12 rho * sin fa.
  Proof.
    unfold hy3, hy12, hy1, hl12, halpha1 in *.
    set (f := rho "flank_angle") in *. set (p := rho "pad_angle") in *. set (r := rho "r1").
    set (h := (f + p) / 2) in *. set (k := (f - p) / 2).
    assert (Ef : f = h + k) by (unfold h, k; field). assert (Ep : p = h - k) by (unfold h, k; field).
    unfold tan. rewrite Ef, Ep. rewrite sin_plus, sin_minus, cos_plus, cos_minus.
    pose proof (sc1 h) as Sh. pose proof (sc1 k) as Sk.
    set (sh := sin h) in *. set (ch := cos h) in *. set (sk := sin k) in *. set (ck := cos k) in *.
    field_simplify_eq; [|exact Ch]. simpl. nsatz.
  Qed.

  (* families without r3 (box-like, round/oval r124, diamond): explicit closure equation *)
  Hypothesis R3 : r3 = 0. Hypothesis A3 : a3 = 0.
  Hypothesis IND : (r2 + r4) * (1 - cos a4) = ind.

  Lemma family_y4 : hy4 rho = dp - r2 * (1 - cos fa).
  Proof.
    unfold hy4, hy11, hy10, hy6, hy8, hy9, hgamma, halpha2, hbeta. rewrite R3, A3.
    replace (0 / 2 + (a4 - 0 / 2)) with a4 by field. replace (0 / 2 - (a4 - 0 / 2)) with (- a4) by field.
    replace (PI / 2 - (fa + a4 - 0) - 0 + a4) with (PI / 2 - fa) by field.
    rewrite cos_neg, sin_shift. nra.
  Qed.

  Lemma family_z4 : hz4 rho = egw / 2 + (r2 + r4) * sin a4 + r2 * sin fa.
  Proof.
    unfold hz4, hz11, hz10, hz6, hz8, hz7, hgamma, halpha2, hbeta. rewrite R3, A3.
    replace (0 / 2 + (a4 - 0 / 2)) with a4 by field. replace (0 / 2 - (a4 - 0 / 2)) with (- a4) by field.
    replace (PI / 2 - (fa + a4 - 0) - 0 + a4) with (PI / 2 - fa) by field.
    rewrite sin_neg, cos_shift. nra.
  Qed.

  (* closure <-> the explicit equation between usable width, depth, radii and angles *)
  Definition family_eq : Prop :=
    uw / 2 = egw / 2 + (r2 + r4) * sin a4 + r2 * sin fa + (dp - r2 * (1 - cos fa)) / tan fa.

  Lemma family_closure : 0 < sin fa -> (hf_flank rho (hz4 rho) = hy4 rho <-> family_eq).
  Proof.
    intro Sf. rewrite closure_iff, family_y4, family_z4. unfold family_eq, hz2.
    assert (T : tan fa <> 0) by (unfold tan; apply Rgt_not_eq; apply Rdiv_lt_0_compat; assumption).
    set (t := tan fa) in *. set (Y := dp - r2 * (1 - cos fa)). set (Z := egw / 2 + (r2 + r4) * sin a4 + r2 * sin fa).
    replace (egw / 2 + (r2 + r4) * sin a4 + r2 * sin fa + Y / t) with (Z + Y / t) by (unfold Z; ring).
    split; intro H.
    - rewrite H. field. exact T.
    - rewrite H. field. exact T.
  Qed.
End Closure.

(* three-radius families (solve_r123): r4 = 0, alpha4 = 0, no even ground, no indent *)
Section R123.
  Variable rho : env.
  Hypothesis R4 : rho "r4" = 0. Hypothesis A4 : rho "alpha4" = 0.
  Hypothesis EG : rho "even_ground_width" = 0. Hypothesis IN : rho "indent" = 0.

  Lemma r123_gamma : hgamma rho = PI / 2 - rho "flank_angle".
  Proof. unfold hgamma, halpha2. rewrite A4. field. Qed.

  Lemma r123_y4 : hy4 rho = rho "depth" - rho "r3" + (rho "r3" - rho "r2") * cos (rho "alpha3") + rho "r2" * sin (PI / 2 - rho "flank_angle").
  Proof.
    unfold hy4. rewrite r123_gamma. unfold hy11, hy10, hy6, hy8, hy9, hbeta. rewrite R4, A4, IN.
    replace (rho "alpha3" / 2 + (0 - rho "alpha3" / 2)) with 0 by field.
    replace (rho "alpha3" / 2 - (0 - rho "alpha3" / 2)) with (rho "alpha3") by field.
    rewrite cos_0. ring.
  Qed.

  Lemma r123_z4 : hz4 rho = (rho "r3" - rho "r2") * sin (rho "alpha3") + rho "r2" * cos (PI / 2 - rho "flank_angle").
  Proof.
    unfold hz4. rewrite r123_gamma. unfold hz11, hz10, hz6, hz8, hz7, hbeta. rewrite R4, A4, EG.
    replace (rho "alpha3" / 2 + (0 - rho "alpha3" / 2)) with 0 by field.
    replace (rho "alpha3" / 2 - (0 - rho "alpha3" / 2)) with (rho "alpha3") by field.
    rewrite sin_0. field.
  Qed.
End R123.
