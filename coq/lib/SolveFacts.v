(* Theorems about the solve loop (C05). *)
From PyrollLib Require Import SolveLoop.
From Coq Require Import Lia.

(* bounded: at most maxit - 1 evaluations of the body, whatever the body does *)
Lemma loop_bound p : forall r old script i, (1 <= i)%nat ->
  (snd (loop p old script i r) <= i + r - 1)%nat.
Proof.
  induction r as [|r IH]; intros old script i Hi; cbn [loop snd]; [lia|].
  destruct script as [|[cur|] rest]; cbn [snd]; try lia.
  destruct (close p old cur); cbn [snd]; try lia.
  specialize (IH (SVec cur) rest (S i) ltac:(lia)). lia.
Qed.

Theorem solve_bound p maxit old script : (snd (solve p maxit old script) <= maxit - 1)%nat.
Proof. unfold solve. pose proof (loop_bound p (maxit - 1) old script 1 (le_n 1)). lia. Qed.

(* the stored vector when iteration k (counted from i) is reached: the initial one, or the previous iterate *)
Definition prev_of (old : stored) (script : list iter) (j : nat) : option stored :=
  match j with
  | O => Some old
  | S m => match nth_error script m with Some (IVec v) => Some (SVec v) | _ => None end
  end.

(* honest convergence: the loop ends with 'Finished after k iterations' only if the k-th iterate passed the
   relative test against the stored vector, which is the (k-1)-th iterate of this very solve when k > first *)
Theorem converged_sound p : forall r old script i k st n,
  loop p old script i r = (Converged k, st, n) ->
  exists cur prev, (i <= k < i + r)%nat /\ nth_error script (k - i) = Some (IVec cur) /\
                   prev_of old script (k - i) = Some prev /\ close p prev cur = VTrue /\ st = prev /\ n = k.
Proof.
  induction r as [|r IH]; intros old script i k st n H; cbn [loop] in H; [discriminate|].
  destruct script as [|[cur|] rest]; try discriminate.
  destruct (close p old cur) eqn:C; try discriminate.
  - inversion H; subst. exists cur, st. replace (n - n)%nat with O by lia. cbn. repeat split; try lia; assumption.
  - destruct (IH _ _ _ _ _ _ H) as [c [pv [R [N [P [Cl [S1 S2]]]]]]].
    exists c, pv. assert (E : (k - i = S (k - S i))%nat) by lia. rewrite E. cbn [nth_error].
    repeat split; try lia; try assumption.
    destruct (k - S i)%nat as [|m] eqn:M.
    + cbn in P. inversion P; subst. reflexivity.
    + cbn [prev_of] in *. cbn [nth_error]. exact P.
Qed.

(* complete warning: the loop ends with the warning iff every allowed iteration produced a vector that failed
   the test against its predecessor; the stored vector is then the last iterate *)
Fixpoint all_fail (p : Q) (old : stored) (script : list iter) (r : nat) {struct r} : Prop :=
  match r with
  | O => True
  | S r' => match script with
            | IVec cur :: rest => close p old cur = VFalse /\ all_fail p (SVec cur) rest r'
            | _ => False
            end
  end.

Theorem warned_iff p : forall r old script i,
  (exists st n, loop p old script i r = (Warned, st, n)) <-> all_fail p old script r.
Proof.
  induction r as [|r IH]; intros old script i; cbn [loop all_fail].
  - split; [intros _; exact I | intros _; eauto].
  - destruct script as [|[cur|] rest].
    + split; [intros [st [n H]]; discriminate | tauto].
    + destruct (close p old cur) eqn:C.
      * split; [intros [st [n H]]; discriminate | intros [X _]; discriminate].
      * rewrite (IH (SVec cur) rest (S i)). tauto.
      * split; [intros [st [n H]]; discriminate | intros [X _]; discriminate].
    + split; [intros [st [n H]]; discriminate | tauto].
Qed.

(* every way the loop can end: converged, warned, the body raised, or numpy rejected the shapes *)
Theorem outcome_cases p r old script i :
  match fst (fst (loop p old script i r)) with
  | Converged k | Raised k | ShapeError k => (i <= k)%nat
  | Warned => True
  end.
Proof.
  revert old script i. induction r as [|r IH]; intros old script i; cbn [loop fst]; [exact I|].
  destruct script as [|[cur|] rest]; cbn [fst]; try lia.
  destruct (close p old cur); cbn [fst]; try lia.
  specialize (IH (SVec cur) rest (S i)). destruct (fst (fst (loop p (SVec cur) rest (S i) r))); try lia; exact I.
Qed.

(* the relative test, spelled out for finite numbers *)
Theorem close1_finite p o c :
  close1 p (Fin o) (Fin c) = Qle_bool (Qabs (c - o)) (Qabs o * p).
Proof. reflexivity. Qed.

(* a vector compared with the initial scalar nan never converges unless it is empty *)
Theorem fresh_unit_needs_two_iterations p v : v <> [] -> close p SNan v = VFalse.
Proof. destruct v; [congruence | reflexivity]. Qed.

(* every solve starts from the scalar nan: 'Finished after k iterations' needs two iterates OF THIS SOLVE, the (k-1)-th and the k-th,
   that pass the relative test (an empty result vector is the only exception: a unit without persisted numeric results) *)
Theorem solve_converged_needs_two_iterates p maxit script k st n :
  solve p maxit SNan script = (Converged k, st, n) ->
  (exists cur, nth_error script (k - 1) = Some (IVec cur) /\
     ((k = 1%nat /\ cur = []) \/
      (2 <= k /\ exists prev, nth_error script (k - 2) = Some (IVec prev) /\ close p (SVec prev) cur = VTrue /\ st = SVec prev)%nat)).
Proof.
  unfold solve. intro H. destruct (converged_sound p _ _ _ _ _ _ _ H) as [cur [prev [R [N [P [C [S1 S2]]]]]]].
  exists cur. split; [exact N|].
  destruct (k - 1)%nat as [|m] eqn:M.
  - left. cbn [prev_of] in P. inversion P as [P']. split; [lia|].
    destruct cur as [|c0 cs]; [reflexivity|]. exfalso. rewrite <- P' in C. cbn [close] in C. discriminate C.
  - right. split; [lia|]. cbn [prev_of] in P. replace (k - 2)%nat with m by lia.
    destruct (nth_error script m) as [[v|]|] eqn:E; try discriminate. inversion P as [P']. subst prev.
    exists v. repeat split; congruence.
Qed.
