(* Model of the pre-/post-processor mechanism of pyroll/core/unit/unit.py (C18):
   per-class factory lists (fresh per subclass), the reversed-MRO walk, factories that return a
   processor or nothing, the chains in init_solve and at the end of solve.  No proofs here. *)
From Coq Require Export List Arith Bool.
Export ListNotations.

Definition cls := nat.
Definition pid := nat.      (* a processor is identified by the mark it leaves on the profile it returns *)

Record factory : Type := { f_id : nat; f_ret : option pid }.   (* returns a processor, or None *)

Record st : Type := {
  mros : list (cls * list cls);              (* __mro__ restricted to unit classes, most derived first *)
  pre : list (cls * list factory);           (* cls.pre_processors *)
  post : list (cls * list factory) }.

Fixpoint alookup {V} (l : list (cls * V)) (k : cls) : option V :=
  match l with [] => None | (k', v) :: r => if Nat.eqb k' k then Some v else alookup r k end.
Fixpoint aset {V} (l : list (cls * V)) (k : cls) (v : V) : list (cls * V) :=
  match l with [] => [(k, v)] | (k', v') :: r => if Nat.eqb k' k then (k', v) :: r else (k', v') :: aset r k v end.

Definition lst (l : list (cls * list factory)) (c : cls) : list factory := match alookup l c with Some x => x | None => [] end.
Definition mro_of (s : st) (c : cls) : list cls := match alookup (mros s) c with Some m => m | None => [] end.

(* Unit._yield_pre_processors: for s in reversed(type(self).__mro__): yield from s.pre_processors *)
Definition walk (s : st) (which : list (cls * list factory)) (c : cls) : list factory :=
  flat_map (fun k => lst which k) (rev (mro_of s c)).

Fixpoint procs (fs : list factory) : list pid :=
  match fs with [] => [] | f :: r => match f_ret f with Some p => p :: procs r | None => procs r end end.

Inductive op : Type :=
| NewClass (c : cls) (mro : list cls)        (* class statement: __init_subclass__ gives it fresh empty lists *)
| RegPre (c : cls) (f : factory)             (* c.pre_processors.append(f) *)
| RegPost (c : cls) (f : factory)
| Solve (c : cls).                           (* an instance of c is solved *)

(* observation of a solve: processors run in order (pre then post), marks on unit.in_profile,
   marks on unit.out_profile, marks on the returned profile *)
Record sobs : Type := { o_calls : list pid; o_in : list pid; o_out : list pid; o_ret : list pid }.

Definition solve_obs (s : st) (c : cls) : sobs :=
  let a := procs (walk s (pre s) c) in
  let b := procs (walk s (post s) c) in
  {| o_calls := a ++ b; o_in := a; o_out := a; o_ret := a ++ b |}.

Definition step (s : st) (o : op) : st * option sobs :=
  match o with
  | NewClass c m => ({| mros := aset (mros s) c m; pre := aset (pre s) c []; post := aset (post s) c [] |}, None)
  | RegPre c f => ({| mros := mros s; pre := aset (pre s) c (lst (pre s) c ++ [f]); post := post s |}, None)
  | RegPost c f => ({| mros := mros s; pre := pre s; post := aset (post s) c (lst (post s) c ++ [f]) |}, None)
  | Solve c => (s, Some (solve_obs s c))
  end.

Fixpoint run (s : st) (ops : list op) : st * list (option sobs) :=
  match ops with
  | [] => (s, [])
  | o :: r => let '(s1, x) := step s o in let '(s2, xs) := run s1 r in (s2, x :: xs)
  end.

Definition init : st := {| mros := []; pre := []; post := [] |}.

(* comparison with recorded observations *)
Fixpoint leqb (a b : list nat) : bool :=
  match a, b with [], [] => true | x :: r, y :: s => (Nat.eqb x y && leqb r s)%bool | _, _ => false end.
Definition sobs_eqb (a b : sobs) : bool :=
  (leqb (o_calls a) (o_calls b) && leqb (o_in a) (o_in b) && leqb (o_out a) (o_out b) && leqb (o_ret a) (o_ret b))%bool.
Fixpoint obs_ok (a b : list (option sobs)) : bool :=
  match a, b with
  | [], [] => true
  | None :: r, None :: s => obs_ok r s
  | Some x :: r, Some y :: s => (sobs_eqb x y && obs_ok r s)%bool
  | _, _ => false
  end.
Fixpoint pmismatches (cases : list (list op * list (option sobs))) (i : nat) : list nat :=
  match cases with
  | [] => []
  | (ops, exp) :: r => let rest := pmismatches r (S i) in if obs_ok (snd (run init ops)) exp then rest else i :: rest
  end.
