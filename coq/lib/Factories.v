(* Target of fragment T-I (profile factories): argument alternatives, range guard, core polygon, buffer radius.
   The extents after buffering use kernel law K4: bounds (buffer P r) = bounds P +- r (round joins). *)
From PyrollLib Require Export Expr.
From Coq Require Export Lra.
Open Scope R_scope.

Inductive cmp : Type := CLe (a b : expr) | CLt (a b : expr) | CGe (a b : expr) | CGt (a b : expr).
Definition cmp_holds (rho : env) (c : cmp) : Prop :=
  match c with
  | CLe a b => eval rho a <= eval rho b | CLt a b => eval rho a < eval rho b
  | CGe a b => eval rho a >= eval rho b | CGt a b => eval rho a > eval rho b
  end.

Record factory : Type := {
  f_pattern : list (string * bool);      (* which alternative arguments are given (true) / None (false) *)
  f_guard : list cmp;                    (* ValueError if any holds *)
  f_core : list (expr * expr);           (* vertices of the core polygon *)
  f_radius : expr;                       (* buffer radius *)
  f_derived : list (string * expr) }.    (* every argument expressed by the given ones *)

Definition accepted (rho : env) (f : factory) : Prop := Forall (fun c => ~ cmp_holds rho c) (f_guard f).

Fixpoint Rmaxl (l : list R) : R := match l with [] => 0 | [x] => x | x :: r => Rmax x (Rmaxl r) end.
Fixpoint Rminl (l : list R) : R := match l with [] => 0 | [x] => x | x :: r => Rmin x (Rminl r) end.

Definition xs (rho : env) (f : factory) : list R := map (fun p => eval rho (fst p)) (f_core f).
Definition ys (rho : env) (f : factory) : list R := map (fun p => eval rho (snd p)) (f_core f).
Definition width_buffered (rho : env) (f : factory) : R := Rmaxl (xs rho f) - Rminl (xs rho f) + 2 * eval rho (f_radius f).
Definition height_buffered (rho : env) (f : factory) : R := Rmaxl (ys rho f) - Rminl (ys rho f) + 2 * eval rho (f_radius f).
Definition centre_x (rho : env) (f : factory) : R := (Rmaxl (xs rho f) + Rminl (xs rho f)) / 2.
Definition centre_y (rho : env) (f : factory) : R := (Rmaxl (ys rho f) + Rminl (ys rho f)) / 2.

Fixpoint alookup_e (l : list (string * expr)) (n : string) : expr :=
  match l with [] => CstZ 0 | (k, v) :: r => if String.eqb k n then v else alookup_e r n end.
Definition derived (rho : env) (f : factory) (n : string) : R := eval rho (alookup_e (f_derived f) n).

(* an argument pattern (given = true) selects a branch *)
Definition selects (given : string -> bool) (f : factory) : bool :=
  forallb (fun p => Bool.eqb (given (fst p)) (snd p)) (f_pattern f).

Ltac minmax := unfold Rmax, Rmin; repeat match goal with |- context [Rle_dec ?a ?b] => destruct (Rle_dec a b) end; try lra.

Lemma Rmaxl_eq l M : In M l -> Forall (fun x => x <= M) l -> Rmaxl l = M.
Proof.
  induction l as [|x r IH]; intros I F; [destruct I|]. inversion F as [|? ? Hx Hr]; subst.
  destruct r as [|y r']; [destruct I as [E|[]]; subst; reflexivity|].
  change (Rmaxl (x :: y :: r')) with (Rmax x (Rmaxl (y :: r'))).
  destruct I as [E|I].
  - subst x. apply Rmax_left. clear - Hr.
    assert (G : forall l, l <> [] -> Forall (fun z => z <= M) l -> Rmaxl l <= M).
    { induction l as [|a l IH2]; intros N F; [congruence|]. inversion F; subst. destruct l as [|b l']; [assumption|].
      change (Rmaxl (a :: b :: l')) with (Rmax a (Rmaxl (b :: l'))). apply Rmax_lub; [assumption | apply IH2; [discriminate | assumption]]. }
    apply G; [discriminate | assumption].
  - rewrite (IH I Hr). apply Rmax_right. assumption.
Qed.

Lemma Rminl_eq l m : In m l -> Forall (fun x => m <= x) l -> Rminl l = m.
Proof.
  induction l as [|x r IH]; intros I F; [destruct I|]. inversion F as [|? ? Hx Hr]; subst.
  destruct r as [|y r']; [destruct I as [E|[]]; subst; reflexivity|].
  change (Rminl (x :: y :: r')) with (Rmin x (Rminl (y :: r'))).
  destruct I as [E|I].
  - subst x. apply Rmin_left. clear - Hr.
    assert (G : forall l, l <> [] -> Forall (fun z => m <= z) l -> m <= Rminl l).
    { induction l as [|a l IH2]; intros N F; [congruence|]. inversion F; subst. destruct l as [|b l']; [assumption|].
      change (Rminl (a :: b :: l')) with (Rmin a (Rminl (b :: l'))). apply Rmin_glb; [assumption | apply IH2; [discriminate | assumption]]. }
    apply G; [discriminate | assumption].
  - rewrite (IH I Hr). apply Rmin_right. assumption.
Qed.

Ltac in_list := solve [cbn [In]; repeat (first [left; lra | right])].
Ltac all_le := solve [repeat (constructor; [lra|]); constructor].
(* rewrite the extremes of the concrete coordinate lists in the goal: maximum M, minimum m *)
Ltac extremes_x M m :=
  match goal with |- context [Rmaxl ?l] => rewrite (Rmaxl_eq l M) by (first [in_list | all_le]) end;
  match goal with |- context [Rminl ?l] => rewrite (Rminl_eq l m) by (first [in_list | all_le]) end.
