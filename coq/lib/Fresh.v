(* Mutation discipline of value-producing code (hook implementations, factories): a value that is mutated in place must have been
   created by the same function.  Programs are the mutation-relevant skeleton extracted by translator T-S:
     SBind x true   - x is bound to a newly created object (set union, set(...), literal, comprehension, .copy(), ...)
     SBind x false  - x is bound to something that already exists (attribute read, argument, conditional with such a branch, unknown call)
     SMutate x      - x.add(...) / x.update(...) / x |= ... / x.append(...) ...
   Cells hold abstract values; the existing object an aliasing bind picks is arbitrary (chosen by `pick`). *)
From Coq Require Export String List Bool Arith.
Export ListNotations.

Inductive stmt := SBind (x : string) (fresh : bool) | SMutate (x : string).
Definition cells := list nat.
Definition venv := list (string * nat).

Fixpoint vlookup (e : venv) (x : string) : option nat :=
  match e with [] => None | (y, a) :: rest => if String.eqb y x then Some a else vlookup rest x end.

Fixpoint write (h : cells) (i : nat) (v : nat) : cells :=
  match h, i with [], _ => [] | _ :: t, 0 => v :: t | c :: t, S j => c :: write t j v end.

(* one step; `pick k` = the existing object the k-th aliasing bind refers to, `val k` = what the k-th mutation leaves in the cell *)
Definition step (pick val : nat -> nat) (k : nat) (s : cells * venv) (c : stmt) : cells * venv :=
  let (h, e) := s in
  match c with
  | SBind x true => ((h ++ [0])%list, (x, length h) :: e)
  | SBind x false => (h, (x, pick k) :: e)
  | SMutate x => match vlookup e x with Some a => (write h a (val k), e) | None => (h, e) end
  end.

Fixpoint run (pick val : nat -> nat) (k : nat) (s : cells * venv) (p : list stmt) : cells * venv :=
  match p with [] => s | c :: rest => run pick val (S k) (step pick val k s c) rest end.

(* the discipline, flow insensitive: a mutated name is never bound to something that already existed *)
Definition binds_fresh_only (p : list stmt) (x : string) : bool :=
  forallb (fun c => match c with SBind y f => if String.eqb y x then f else true | SMutate _ => true end) p.
Definition discipline (p : list stmt) : bool :=
  forallb (fun c => match c with SMutate x => binds_fresh_only p x | SBind _ _ => true end) p.
