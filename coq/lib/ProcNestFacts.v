(* Facts about nested processors: whatever the factories answer and however deep the products nest, every factory of the walk is asked exactly
   once for every unit that is solved - the outer unit and every processor unit alike - in walk order. *)
From PyrollLib Require Import ProcNest.
From Coq Require Import Lia.

Definition deeper (d : nat) (a : asks) : Prop := forall x, In x a -> d <= snd x.

Lemma own_asks_app d a b : own_asks d (a ++ b) = own_asks d a ++ own_asks d b.
Proof. unfold own_asks. rewrite filter_app, map_app. reflexivity. Qed.

Lemma own_asks_deeper d a : deeper (S d) a -> own_asks d a = [].
Proof.
  unfold own_asks, deeper. induction a as [|x r IH]; intro H; [reflexivity|]. cbn [filter].
  assert (L : S d <= snd x) by (apply H; left; reflexivity).
  destruct (Nat.eqb_spec (snd x) d) as [E|_]; [lia|]. apply IH. intros y Hy. apply H. right. exact Hy.
Qed.

Lemma chain_asks rec d fs : (forall c' a p q, rec c' = Some (a, p, q) -> deeper (S d) a) ->
  forall a m, chain_with rec d fs = Some (a, m) -> own_asks d a = map nf_id fs /\ deeper d a.
Proof.
  intro R. induction fs as [|fa r IH]; intros a m E; cbn [chain_with] in E.
  - inversion E; subst. split; [reflexivity | intros x []].
  - destruct (ans fa d) as [|c' mk] eqn:A.
    + destruct (chain_with rec d r) as [[a2 m2]|] eqn:C; [|discriminate]. inversion E; subst.
      destruct (IH _ _ eq_refl) as [O D]. cbn [app]. split.
      * unfold own_asks. cbn [filter snd]. rewrite Nat.eqb_refl. cbn [map fst]. f_equal. exact O.
      * intros x [H|H]; [subst; cbn; lia | apply D; exact H].
    + destruct (rec c') as [[[a1 pm] qm]|] eqn:Rc; [|discriminate].
      destruct (chain_with rec d r) as [[a2 m2]|] eqn:C; [|discriminate]. inversion E; subst.
      destruct (IH _ _ eq_refl) as [O D]. pose proof (R _ _ _ _ Rc) as D1. split.
      * change ((nf_id fa, d) :: a1 ++ a2) with ([(nf_id fa, d)] ++ a1 ++ a2).
        rewrite !own_asks_app, (own_asks_deeper d a1 D1), O.
        unfold own_asks. cbn [filter snd]. rewrite Nat.eqb_refl. reflexivity.
      * intros x [H|H]; [subst; cbn; lia|]. apply in_app_or in H. destruct H as [H|H]; [specialize (D1 _ H); lia | apply D; exact H].
Qed.

Lemma nsolve_deeper fuel s : forall c d a p q, nsolve fuel s c d = Some (a, p, q) -> deeper d a.
Proof.
  induction fuel as [|f IH]; intros c d a p q E; cbn [nsolve] in E; [discriminate|].
  destruct (chain_with (fun c' => nsolve f s c' (S d)) d (nwalk s (npre s) c)) as [[a1 m1]|] eqn:C1; [|discriminate].
  destruct (chain_with (fun c' => nsolve f s c' (S d)) d (nwalk s (npost s) c)) as [[a2 m2]|] eqn:C2; [|discriminate].
  inversion E; subst.
  assert (R : forall c' a p q, (fun c' => nsolve f s c' (S d)) c' = Some (a, p, q) -> deeper (S d) a) by (intros c' a' p' q' H; apply (IH _ _ _ _ _ H)).
  destruct (chain_asks _ d _ R _ _ C1) as [_ D1]. destruct (chain_asks _ d _ R _ _ C2) as [_ D2].
  intros x H. apply in_app_or in H. destruct H as [H|H]; [apply D1 | apply D2]; exact H.
Qed.

(* EVERY UNIT IS ASKED FOR LIKE ANY OTHER: for the unit solved at depth d - the outer unit (d = 0) or a processor unit at any depth - the
   factories asked are exactly those of the walk over its class, pre then post, each once, in order; whatever they answer *)
Theorem every_factory_asked_once fuel s c d a p q : nsolve fuel s c d = Some (a, p, q) ->
  own_asks d a = map nf_id (nwalk s (npre s) c) ++ map nf_id (nwalk s (npost s) c).
Proof.
  destruct fuel as [|f]; cbn [nsolve]; [discriminate|]. intro E.
  destruct (chain_with (fun c' => nsolve f s c' (S d)) d (nwalk s (npre s) c)) as [[a1 m1]|] eqn:C1; [|discriminate].
  destruct (chain_with (fun c' => nsolve f s c' (S d)) d (nwalk s (npost s) c)) as [[a2 m2]|] eqn:C2; [|discriminate].
  inversion E; subst.
  assert (R : forall c' a p q, (fun c' => nsolve f s c' (S d)) c' = Some (a, p, q) -> deeper (S d) a) by (intros c' a' p' q' H; apply (nsolve_deeper _ _ _ _ _ _ _ H)).
  destruct (chain_asks _ d _ R _ _ C1) as [O1 _]. destruct (chain_asks _ d _ R _ _ C2) as [O2 _].
  rewrite own_asks_app, O1, O2. reflexivity.
Qed.

(* the own-class product: class 0 (a stage) carries two pre-processor factories - #1 answers for the units at depth 0 and 1 with another stage
   (marks 701, 702), #2 answers for every unit with a plain processor of class 9 (marks 600 + depth).  Everything is asked for at every depth;
   with the re-entrancy guard of the seeded change factory #1 is not asked for its own product and the innermost stage never exists. *)
Definition stage_state : nst :=
  {| nmros := [(0, [0]); (9, [9])];
     npre := [(0, [{| nf_id := 1; nf_ans := [(0, AProc 0 701); (1, AProc 0 702)] |};
                   {| nf_id := 2; nf_ans := [(0, AProc 9 600); (1, AProc 9 601); (2, AProc 9 602)] |}]); (9, [])];
     npost := [(0, []); (9, [])] |}.
Lemma own_class_product :
  nsolve 10 stage_state 0 0 = Some ([(1, 0); (1, 1); (1, 2); (2, 2); (2, 1); (2, 0)], [602; 702; 601; 701; 600], []) /\
  nsolve_guarded 10 [] stage_state 0 0 = Some ([(1, 0); (2, 1); (2, 0)], [601; 701; 600], []).
Proof. split; vm_compute; reflexivity. Qed.
