(* Chaining lemmas for solved sequences (C06): telescoping of times, elongations, disk elements, and the
   hand-over of public explicit values between profiles. *)
From Coq Require Export Reals List String Lra.
From Coq Require Import Lia Ascii.
Export ListNotations.
Open Scope R_scope.

(* t after a list of units with durations ds, starting at t0: every unit adds its duration (out_t = in_t + duration)
   and hands its out value to the next unit *)
Fixpoint times (t0 : R) (ds : list R) : list R :=
  match ds with [] => [] | d :: r => (t0 + d) :: times (t0 + d) r end.
Fixpoint sum (l : list R) : R := match l with [] => 0 | x :: r => x + sum r end.

Lemma times_last' ds : forall t0 x, last (times t0 ds) x = match ds with [] => x | _ => t0 + sum ds end.
Proof.
  induction ds as [|d r IH]; intros t0 x; [reflexivity|].
  cbn [times sum]. destruct r as [|d' r'].
  - cbn. lra.
  - change (last (t0 + d :: times (t0 + d) (d' :: r')) x) with (last (times (t0 + d) (d' :: r')) x).
    rewrite IH. cbn [sum]. lra.
Qed.

Lemma times_last t0 ds : last (times t0 ds) t0 = t0 + sum ds.
Proof. rewrite times_last'. destruct ds; cbn [sum]; lra. Qed.

Lemma times_monotone t0 ds : Forall (fun d => 0 <= d) ds ->
  Forall (fun t => t0 <= t) (times t0 ds).
Proof.
  revert t0. induction ds as [|d r IH]; intros t0 H; cbn [times]; [constructor|].
  inversion H as [|? ? Hd Hr]; subst. constructor; [lra|].
  eapply Forall_impl; [|apply IH; assumption]. intros t Ht. cbn in Ht. lra.
Qed.

(* areas a0 (incoming), a1, ..., an along a sequence: the unit elongations a_{k}/a_{k+1} multiply to a0/an *)
Fixpoint elongations (a0 : R) (As : list R) : list R :=
  match As with [] => [] | a :: r => (a0 / a) :: elongations a r end.
Fixpoint prod (l : list R) : R := match l with [] => 1 | x :: r => x * prod r end.

Lemma last_nonzero (l : list R) x : Forall (fun a => a <> 0) l -> x <> 0 -> last l x <> 0.
Proof.
  induction l as [|a r IH]; intros H Hx; [exact Hx|]. inversion H as [|? ? Ha Hr]; subst.
  destruct r as [|a' r']; [exact Ha|]. change (last (a :: a' :: r') x) with (last (a' :: r') x). apply IH; assumption.
Qed.

Lemma elongation_product As : forall a0, a0 <> 0 -> Forall (fun a => a <> 0) As ->
  prod (elongations a0 As) = a0 / last As a0.
Proof.
  induction As as [|a r IH]; intros a0 H0 H; cbn [elongations prod].
  - cbn [last]. field. assumption.
  - inversion H as [|? ? Ha Hr]; subst. rewrite (IH a Ha Hr).
    assert (L : last r a <> 0) by (apply last_nonzero; assumption).
    destruct r as [|a' r'].
    + cbn [last]. field. assumption.
    + change (last (a :: a' :: r') a0) with (last (a' :: r') a0).
      assert (E : last (a' :: r') a0 = last (a' :: r') a).
      { clear. revert a'. induction r' as [|y r'' IH2]; intro a'; [reflexivity|].
        change (last (a' :: y :: r'') a0) with (last (y :: r'') a0). change (last (a' :: y :: r'') a) with (last (y :: r'') a). apply IH2. }
      rewrite E. field. split; assumption.
Qed.

(* disk elements: n equal parts of length L/n chain to L; x positions chain by x_out = x_in + length *)
Lemma disk_sum (n : nat) L : (0 < n)%nat -> sum (repeat (L / INR n) n) = L.
Proof.
  intro H. assert (G : forall m, sum (repeat (L / INR n) m) = INR m * (L / INR n)).
  { induction m as [|m IH]; [cbn; lra|]. cbn [repeat sum]. rewrite IH, S_INR. lra. }
  rewrite G. field. apply not_0_INR. lia.
Qed.

(* hand-over: Unit.Profile.__init__ and the profile returned by Unit.solve copy exactly the public explicit values *)
Definition pdict := list (string * R).
Definition is_public (k : string) : bool := match k with String c _ => negb (Ascii.eqb c "_"%char) | EmptyString => true end.
Definition handover (d : pdict) : pdict := filter (fun kv => is_public (fst kv)) d.
Fixpoint plookup (d : pdict) (k : string) : option R :=
  match d with [] => None | (k', v) :: r => if String.eqb k' k then Some v else plookup r k end.

Lemma handover_public d k : is_public k = true -> plookup (handover d) k = plookup d k.
Proof.
  intro P. induction d as [|[k' v] r IH]; [reflexivity|]. cbn [handover filter fst].
  destruct (is_public k') eqn:E; cbn [plookup].
  - destruct (String.eqb k' k); [reflexivity | exact IH].
  - destruct (String.eqb_spec k' k); [subst; congruence | exact IH].
Qed.

Lemma handover_private d k : is_public k = false -> plookup (handover d) k = None.
Proof.
  intro P. induction d as [|[k' v] r IH]; [reflexivity|]. cbn [handover filter fst].
  destruct (is_public k') eqn:E; cbn [plookup]; [|exact IH].
  destruct (String.eqb_spec k' k); [subst; congruence | exact IH].
Qed.
