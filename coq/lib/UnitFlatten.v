(* PassSequence.flatten preserves the consistency invariant (for a sequence that does not list itself). *)
From PyrollLib Require Import UnitTree UnitFacts.
From Coq Require Import Lia.

Section Flatten.
  Variable s0 : st.
  Variable q : uid.
  Hypothesis I0 : Inv s0.
  Hypothesis Nq : ~ In q (kids_of s0 q).
  Let l := kids_of s0 q.

  (* what holds before each round of the walk over the snapshot l: r = items still to visit, acc = units collected so far *)
  Record J (s : st) (r acc : list uid) : Prop := {
    j_inv : Inv s;
    j_kinds : kinds s = kinds s0;
    j_q : kids_of s q = l;
    j_future : forall u, In u r -> kids_of s u = kids_of s0 u;
    j_sub : forall u, In u r -> In u l;
    j_nodup_r : NoDup r;
    j_nodup : NoDup acc;
    j_acc : forall x, In x acc -> (par_of s x = None /\ ~ In x l) \/ (In x l /\ ~ In x r);
    j_disj : forall x u, In x acc -> In u r -> ~ In x (kids_of s0 u)
  }.

  Lemma kind_same s : kinds s = kinds s0 -> forall u, kind_of s u = kind_of s0 u.
  Proof. intros E u. unfold kind_of. rewrite E. reflexivity. Qed.

  Lemma flatten_loop_J r : forall s acc, J s r acc ->
    J (fst (flatten_loop s r acc)) [] (snd (flatten_loop s r acc)).
  Proof.
    induction r as [|u r IH]; intros s acc H; [exact H|].
    cbn [flatten_loop]. destruct H as [H1 H2 H3 H4 H5 H6 H7 H8 H9].
    assert (Ul : In u l) by (apply H5; left; reflexivity).
    assert (Uq : u <> q) by (intro E; subst u; exact (Nq Ul)).
    assert (Ur : ~ In u r) by (inversion H6; assumption).
    assert (NDr : NoDup r) by (inversion H6; assumption).
    destruct (kind_of s u) eqn:K.
    - (* an inner sequence: dissolved *)
      set (Ku := kids_of s u). assert (EK : Ku = kids_of s0 u) by (apply H4; left; reflexivity).
      apply IH. constructor.
      + apply inv_clear. exact H1.
      + rewrite update_kinds. exact H2.
      + rewrite update_kids. destruct (Nat.eqb_spec u q) as [E|_]; [contradiction | exact H3].
      + intros v Hv. rewrite update_kids. destruct (Nat.eqb_spec u v) as [E|_]; [subst v; contradiction | apply H4; right; exact Hv].
      + intros v Hv. apply H5. right. exact Hv.
      + exact NDr.
      + apply NoDup_app_iff. split; [exact H7|]. split; [rewrite EK; apply (inv_nodup s0 I0)|].
        intros x Hx Hk. rewrite EK in Hk. exact (H9 x u Hx (or_introl eq_refl) Hk).
      + intros x Hx. apply in_app_or in Hx. destruct Hx as [Hx|Hx].
        * destruct (H8 x Hx) as [[P N]|[P N]].
          -- left. split; [|exact N]. rewrite update_par. cbn [mem existsb]. destruct (mem x Ku); [reflexivity | exact P].
          -- right. split; [exact P|]. intro X. apply N. right. exact X.
        * left. assert (Hx0 : In x (kids_of s0 u)) by (rewrite <- EK; exact Hx). split.
          -- rewrite update_par. cbn [mem existsb]. assert (M : mem x Ku = true) by (apply mem_In; exact Hx). rewrite M. reflexivity.
          -- intro Xl. pose proof (inv_listed s0 I0 u x Hx0) as P1. pose proof (inv_listed s0 I0 q x Xl) as P2. congruence.
      + intros x v Hx Hv Hk. apply in_app_or in Hx. destruct Hx as [Hx|Hx].
        * exact (H9 x v Hx (or_intror Hv) Hk).
        * assert (Hx0 : In x (kids_of s0 u)) by (rewrite <- EK; exact Hx).
          pose proof (inv_listed s0 I0 u x Hx0) as P1. pose proof (inv_listed s0 I0 v x Hk) as P2.
          assert (u = v) by congruence. subst v. contradiction.
    - (* an ordinary unit: kept *)
      apply IH. constructor; try assumption.
      + intros v Hv. apply H4. right. exact Hv.
      + intros v Hv. apply H5. right. exact Hv.
      + apply NoDup_app_iff. split; [exact H7|]. split; [repeat constructor; intros []|].
        intros x Hx [E|[]]. subst x. destruct (H8 u Hx) as [[_ N]|[_ N]]; [exact (N Ul) | apply N; left; reflexivity].
      + intros x Hx. apply in_app_or in Hx. destruct Hx as [Hx|[E|[]]].
        * destruct (H8 x Hx) as [P|[P N]]; [left; exact P | right; split; [exact P | intro X; apply N; right; exact X]].
        * subst x. right. split; assumption.
      + intros x v Hx Hv Hk. apply in_app_or in Hx. destruct Hx as [Hx|[E|[]]].
        * exact (H9 x v Hx (or_intror Hv) Hk).
        * subst x. pose proof (inv_listed s0 I0 v u Hk) as P1. pose proof (inv_listed s0 I0 q u Ul) as P2.
          assert (v = q) by congruence. subst v. apply Nq. apply H5. right. exact Hv.
    - 
      apply IH. constructor; try assumption.
      + intros v Hv. apply H4. right. exact Hv.
      + intros v Hv. apply H5. right. exact Hv.
      + apply NoDup_app_iff. split; [exact H7|]. split; [repeat constructor; intros []|].
        intros x Hx [E|[]]. subst x. destruct (H8 u Hx) as [[_ N]|[_ N]]; [exact (N Ul) | apply N; left; reflexivity].
      + intros x Hx. apply in_app_or in Hx. destruct Hx as [Hx|[E|[]]].
        * destruct (H8 x Hx) as [P|[P N]]; [left; exact P | right; split; [exact P | intro X; apply N; right; exact X]].
        * subst x. right. split; assumption.
      + intros x v Hx Hv Hk. apply in_app_or in Hx. destruct Hx as [Hx|[E|[]]].
        * exact (H9 x v Hx (or_intror Hv) Hk).
        * subst x. pose proof (inv_listed s0 I0 v u Hk) as P1. pose proof (inv_listed s0 I0 q u Ul) as P2.
          assert (v = q) by congruence. subst v. apply Nq. apply H5. right. exact Hv.
    - 
      apply IH. constructor; try assumption.
      + intros v Hv. apply H4. right. exact Hv.
      + intros v Hv. apply H5. right. exact Hv.
      + apply NoDup_app_iff. split; [exact H7|]. split; [repeat constructor; intros []|].
        intros x Hx [E|[]]. subst x. destruct (H8 u Hx) as [[_ N]|[_ N]]; [exact (N Ul) | apply N; left; reflexivity].
      + intros x Hx. apply in_app_or in Hx. destruct Hx as [Hx|[E|[]]].
        * destruct (H8 x Hx) as [P|[P N]]; [left; exact P | right; split; [exact P | intro X; apply N; right; exact X]].
        * subst x. right. split; assumption.
      + intros x v Hx Hv Hk. apply in_app_or in Hx. destruct Hx as [Hx|[E|[]]].
        * exact (H9 x v Hx (or_intror Hv) Hk).
        * subst x. pose proof (inv_listed s0 I0 v u Hk) as P1. pose proof (inv_listed s0 I0 q u Ul) as P2.
          assert (v = q) by congruence. subst v. apply Nq. apply H5. right. exact Hv.
  Qed.

  Theorem flatten_inv : Inv (fst (step s0 (Flatten q))).
  Proof.
    cbn [step]. fold l.
    assert (H0 : J s0 l []).
    { constructor.
      - exact I0.
      - reflexivity.
      - reflexivity.
      - intros u _. reflexivity.
      - intros u Hu. exact Hu.
      - apply (inv_nodup s0 I0).
      - constructor.
      - intros x [].
      - intros x u []. }
    pose proof (flatten_loop_J l s0 [] H0) as H.
    destruct (flatten_loop s0 l []) as [s1 nl]. cbn [fst snd] in H.
    destruct H as [H1 H2 H3 _ _ _ H7 H8 _].
    set (s2 := update s1 q [] (kids_of s1 q) []).
    assert (I2 : Inv s2) by (apply inv_clear; exact H1).
    assert (K2 : kids_of s2 q = []) by (unfold s2; rewrite update_kids, Nat.eqb_refl; reflexivity).
    assert (U2 : forall x, In x nl -> unlisted s2 x).
    { intros x Hx. unfold unlisted, s2. rewrite update_par. cbn [mem existsb]. rewrite H3.
      destruct (H8 x Hx) as [[P N]|[P _]].
      - destruct (mem x l); [reflexivity | exact P].
      - assert (M : mem x l = true) by (apply mem_In; exact P). rewrite M. reflexivity. }
    pose proof (inv_extend s2 q nl I2 H7 U2) as R. rewrite K2 in R. cbn [app] in R. cbn [fst]. exact R.
  Qed.
End Flatten.

(* histories that may flatten: every admissible operation, flatten included, preserves consistency *)
Definition flatten_ok (s : st) (o : op) : Prop := match o with Flatten q => ~ In q (kids_of s q) | _ => True end.

Theorem step_inv_all s o : Inv s -> admissible s o -> flatten_ok s o -> Inv (fst (step s o)).
Proof.
  intros I A F. destruct o; try (apply step_inv; [exact I | exact A | exact Logic.I]).
  apply flatten_inv; assumption.
Qed.

Fixpoint ok_run_all (s : st) (ops : list op) : Prop :=
  match ops with [] => True | o :: r => admissible s o /\ flatten_ok s o /\ ok_run_all (fst (step s o)) r end.

Theorem run_inv_all ops : forall s, Inv s -> ok_run_all s ops -> Inv (fst (run s ops)).
Proof.
  induction ops as [|o r IH]; intros s I OK; cbn [run]; [exact I|].
  destruct OK as [A [C OK]]. pose proof (step_inv_all s o I A C) as I1.
  destruct (step s o) as [s1 x]. cbn [fst] in *. specialize (IH s1 I1 OK).
  destruct (run s1 r) as [s2 xs]. exact IH.
Qed.
