(* comparison of the unit-tree model with snapshots recorded from the implementation *)
From PyrollLib Require Import UnitTree.

Definition err_eqb (a b : err) : bool :=
  match a, b with IndexError, IndexError | ValueError, ValueError | TypeError, TypeError | KeyError, KeyError => true | _, _ => false end.
Definition res_eqb (a b : result) : bool :=
  match a, b with None, None => true | Some x, Some y => err_eqb x y | _, _ => false end.
Fixpoint leqb (a b : list nat) : bool :=
  match a, b with [] , [] => true | x :: r, y :: s => (Nat.eqb x y && leqb r s)%bool | _, _ => false end.

(* snapshot: parent of every unit created so far (0 = None, else S parent), list of every unit *)
Record snap : Type := mksnap { sn_par : list (uid * nat); sn_kids : list (uid * list uid) }.

Definition snap_ok (s : st) (x : snap) : bool :=
  (forallb (fun p => Nat.eqb (match par_of s (fst p) with None => 0 | Some q => S q end) (snd p)) (sn_par x)
   && forallb (fun p => leqb (kids_of s (fst p)) (snd p)) (sn_kids x))%bool.

Fixpoint steps_ok (s : st) (ops : list op) (exp : list (result * snap)) : bool :=
  match ops, exp with
  | [], [] => true
  | o :: r, (res, sn) :: e =>
      let '(s1, x) := step s o in (res_eqb x res && snap_ok s1 sn && steps_ok s1 r e)%bool
  | _, _ => false
  end.

Fixpoint umismatches (cases : list (list op * list (result * snap))) (i : nat) : list nat :=
  match cases with
  | [] => []
  | (ops, exp) :: r => let rest := umismatches r (S i) in if steps_ok init ops exp then rest else i :: rest
  end.
