(* Wrapper composition (repaired semantics): a stack of guarded wrappers over a plain implementation applies every wrapper exactly once,
   whichever of them are currently flagged as running; all cycle flags are as before afterwards. *)
From PyrollLib Require Import HookMachine.
From Coq Require Import Lia ZArith.
Local Open Scope Z_scope.

Section Stack.
  Variable mro : cls -> list cls.
  Notation call_ := (call sem_fixed).
  Notation scan_ := (scan sem_fixed).
  Notation gr_ := (get_result mro sem_fixed).

  Variable o : obj.
  Variable c : cls.
  Variable h : hook.
  Variable ws : list iid.        (* the wrappers, in resolution order *)
  Variable p : iid.              (* the plain implementation below them *)
  Variable z : iid -> Z.         (* wrapper w adds z w to what it wraps *)
  Variable a : Z.                (* the plain implementation returns a *)

  (* states in which the hook of class c resolves to this stack *)
  Record stack_state (st : state) : Prop := {
    ss_fun : functions mro st c h = (ws ++ [p])%list;
    ss_w : forall w, In w ws -> exists im, alookup Nat.eqb (impls st) w = Some im /\ i_body im = Wrapper true (PoAdd (z w));
    ss_p : exists im, alookup Nat.eqb (impls st) p = Some im /\ i_body im = Plain (PConst (VInt a))
  }.

  (* everything but the trace *)
  Definition same (st st' : state) : Prop :=
    stores st' = stores st /\ impls st' = impls st /\ dict st' = dict st /\ cache st' = cache st /\ cyc st' = cyc st /\ ocls st' = ocls st.

  Lemma same_refl st : same st st.
  Proof. repeat split. Qed.
  Lemma same_trans s1 s2 s3 : same s1 s2 -> same s2 s3 -> same s1 s3.
  Proof. unfold same. intros [A1 [A2 [A3 [A4 [A5 A6]]]]] [B1 [B2 [B3 [B4 [B5 B6]]]]]. repeat split; congruence. Qed.

  Lemma same_stack st st' : same st st' -> stack_state st -> stack_state st'.
  Proof.
    intros [A1 [A2 _]] [F W P]. constructor.
    - unfold functions, store_of in *. rewrite A1. exact F.
    - intros w Hw. rewrite A2. apply W. exact Hw.
    - rewrite A2. exact P.
  Qed.

  Lemma same_flagged st st' i : same st st' -> flagged st' i = flagged st i.
  Proof. intros [_ [_ [_ [_ [A _]]]]]. unfold flagged. rewrite A. reflexivity. Qed.

  Definition unflagged (st : state) : list iid := filter (fun w => negb (flagged st w)) ws.
  Definition zsum (l : list iid) : Z := fold_right (fun w acc => z w + acc) 0 l.

  Lemma remove_first_head i l : remove_first i (i :: l) = l.
  Proof. cbn [remove_first]. rewrite Nat.eqb_refl. reflexivity. Qed.

  (* a flagged guarded wrapper steps aside *)
  Lemma call_flagged_wrapper gr st w : stack_state st -> In w ws -> flagged st w = true ->
    exists st', call_ gr o c h w st = (st', Val VNone) /\ same st st'.
  Proof.
    intros S Hw Fl. destruct (ss_w st S w Hw) as [im [L B]]. unfold call. rewrite L, B, Fl. cbn [andb].
    eexists. split; [reflexivity|]. unfold same, after_call, set_cyc, push_trace. cbn. rewrite Nat.eqb_refl. repeat split.
  Qed.

  Lemma call_plain gr st : stack_state st ->
    exists st', call_ gr o c h p st = (st', Val (VInt a)) /\ same st st'.
  Proof.
    intros S. destruct (ss_p st S) as [im [L B]]. unfold call. rewrite L, B. cbn [exec].
    eexists. split; [reflexivity|]. unfold same, after_call, set_cyc, push_trace. cbn. rewrite Nat.eqb_refl. repeat split.
  Qed.

  (* scanning a list of wrappers that are all flagged yields nothing and changes nothing *)
  Lemma scan_all_flagged gr l rest : forall st, stack_state st -> (forall w, In w l -> In w ws /\ flagged st w = true) ->
    exists st', scan_ gr o c h (l ++ rest) st = scan_ gr o c h rest st' /\ same st st'.
  Proof.
    induction l as [|w l IH]; intros st S H; [exists st; split; [reflexivity | apply same_refl]|].
    cbn [app scan]. destruct (H w (or_introl eq_refl)) as [Hw Fl].
    destruct (call_flagged_wrapper gr st w S Hw Fl) as [st1 [E Sm]]. rewrite E.
    destruct (IH st1 (same_stack _ _ Sm S)) as [st2 [E2 Sm2]].
    - intros w' Hw'. destruct (H w' (or_intror Hw')) as [A B]. split; [exact A | rewrite (same_flagged _ _ w' Sm); exact B].
    - exists st2. split; [exact E2 | exact (same_trans _ _ _ Sm Sm2)].
  Qed.

  (* split ws at its first unflagged wrapper *)
  Lemma first_unflagged st : unflagged st <> [] ->
    exists l1 w l2, ws = (l1 ++ w :: l2)%list /\ (forall x, In x l1 -> flagged st x = true) /\ flagged st w = false /\
                    unflagged st = w :: filter (fun x => negb (flagged st x)) l2.
  Proof.
    unfold unflagged. induction ws as [|x l IH]; intro N; [contradiction|].
    cbn [filter] in *. destruct (flagged st x) eqn:F; cbn [negb] in *.
    - destruct (IH N) as [l1 [w [l2 [E [A [B C]]]]]]. exists (x :: l1), w, l2. split; [rewrite E; reflexivity|].
      split; [intros y [Hy|Hy]; [subst; exact F | apply A; exact Hy]|]. split; [exact B | exact C].
    - exists [], x, l. repeat split; [intros y [] | exact F].
  Qed.

  Hypothesis NDw : NoDup ws.

  Lemma filter_after_flagging st st0 w l2 :
    (forall x, flagged st0 x = if Nat.eqb w x then true else flagged st x) -> ~ In w l2 ->
    filter (fun x => negb (flagged st0 x)) l2 = filter (fun x => negb (flagged st x)) l2.
  Proof.
    intros H N. induction l2 as [|y l IH]; [reflexivity|]. cbn [filter]. rewrite H.
    destruct (Nat.eqb_spec w y) as [E|_]; [subst; exfalso; apply N; left; reflexivity|].
    rewrite IH; [reflexivity | intro X; apply N; right; exact X].
  Qed.

  (* the stack, evaluated with enough fuel from any flag state: every unflagged wrapper exactly once *)
  Theorem stack_value : forall m n st, stack_state st -> length (unflagged st) = m -> (m < n)%nat ->
    exists st', gr_ n st o c h = (st', Val (VInt (a + zsum (unflagged st)))) /\ same st st'.
  Proof.
    induction m as [|m IH]; intros n st S Lm Ln; (destruct n as [|n]; [lia|]); cbn [get_result]; rewrite (ss_fun st S).
    - (* every wrapper is flagged: the plain implementation answers *)
      assert (U : unflagged st = []) by (destruct (unflagged st); [reflexivity | discriminate]).
      destruct (scan_all_flagged (gr_ n) ws [p] st S) as [st1 [E Sm]].
      { intros w Hw. split; [exact Hw|]. destruct (flagged st w) eqn:F; [reflexivity|].
        exfalso. assert (I : In w (unflagged st)) by (unfold unflagged; apply filter_In; split; [exact Hw | rewrite F; reflexivity]).
        rewrite U in I. destruct I. }
      rewrite E. cbn [scan]. destruct (call_plain (gr_ n) st1 (same_stack _ _ Sm S)) as [st2 [E2 Sm2]]. rewrite E2.
      exists st2. split; [rewrite U; cbn [zsum fold_right]; rewrite Z.add_0_r; reflexivity | exact (same_trans _ _ _ Sm Sm2)].
    - (* the first unflagged wrapper wraps the rest *)
      assert (N : unflagged st <> []) by (intro X; rewrite X in Lm; discriminate).
      destruct (first_unflagged st N) as [l1 [w [l2 [Ews [A [B C]]]]]].
      assert (Hw : In w ws) by (rewrite Ews; apply in_or_app; right; left; reflexivity).
      assert (Nw2 : ~ In w l2).
      { rewrite Ews in NDw. apply NoDup_remove_2 in NDw. intro X. apply NDw. apply in_or_app. right. exact X. }
      assert (Nw1 : ~ In w l1).
      { rewrite Ews in NDw. apply NoDup_remove_2 in NDw. intro X. apply NDw. apply in_or_app. left. exact X. }
      rewrite Ews, <- app_assoc. cbn [app].
      destruct (scan_all_flagged (gr_ n) l1 (w :: (l2 ++ [p])%list) st S) as [st1 [E Sm]].
      { intros x Hx. split; [rewrite Ews; apply in_or_app; left; exact Hx | apply A; exact Hx]. }
      rewrite E. cbn [scan].
      pose proof (same_stack _ _ Sm S) as S1.
      destruct (ss_w st1 S1 w Hw) as [im [L Bd]]. unfold call. rewrite L, Bd.
      rewrite (same_flagged _ _ w Sm), B. cbn [andb wrapper_inner_from_instance sem_fixed pre_raise].
      set (st0 := push_trace (set_cyc st1 (w :: cyc st1)) w).
      assert (S0 : stack_state st0).
      { destruct S1 as [F W P]. constructor; [exact F | exact W | exact P]. }
      assert (F0 : forall x, flagged st0 x = if Nat.eqb w x then true else flagged st x).
      { intro x. unfold flagged, st0. cbn. rewrite (Nat.eqb_sym x w). destruct (Nat.eqb w x); [reflexivity|].
        cbn [orb]. destruct Sm as [_ [_ [_ [_ [Cy _]]]]]. rewrite Cy. reflexivity. }
      assert (U0 : unflagged st0 = filter (fun x => negb (flagged st x)) l2).
      { unfold unflagged. rewrite Ews, filter_app. cbn [filter].
        rewrite (F0 w), Nat.eqb_refl. cbn [negb].
        replace (filter (fun x => negb (flagged st0 x)) l1) with (@nil iid).
        - cbn [app]. apply (filter_after_flagging st st0 w l2 F0 Nw2).
        - symmetry. clear -A F0 Nw1. induction l1 as [|y l IHl]; [reflexivity|]. cbn [filter]. rewrite F0.
          destruct (Nat.eqb w y); [apply IHl; [intros x Hx; apply A; right; exact Hx | intro X; apply Nw1; right; exact X]|].
          rewrite (A y (or_introl eq_refl)). cbn [negb]. apply IHl; [intros x Hx; apply A; right; exact Hx | intro X; apply Nw1; right; exact X]. }
      assert (L0 : length (unflagged st0) = m) by (rewrite U0; rewrite C in Lm; cbn [length] in Lm; lia).
      destruct (IH n st0 S0 L0 ltac:(lia)) as [sti [Ei Smi]]. rewrite Ei. cbn [apply_post py_add as_num].
      eexists. split.
      + f_equal. f_equal. f_equal. rewrite C, U0. cbn [zsum fold_right]. fold (zsum (filter (fun x => negb (flagged st x)) l2)). ring.
      + destruct Smi as [I1 [I2 [I3 [I4 [I5 I6]]]]]. destruct Sm as [J1 [J2 [J3 [J4 [J5 J6]]]]].
        unfold same, after_call, set_cyc. cbn [restore_flag sem_fixed stores impls dict cache cyc ocls].
        rewrite I5. unfold st0. cbn [cyc set_cyc push_trace]. rewrite remove_first_head.
        repeat split; try congruence; (unfold st0 in *; cbn in *; congruence).
  Qed.

  (* on a quiet machine (no wrapper of the stack running): the plain value plus every wrapper's contribution, each exactly once *)
  Corollary stack_applies_every_wrapper_once st n : stack_state st -> (forall w, In w ws -> flagged st w = false) -> (length ws < n)%nat ->
    exists st', gr_ n st o c h = (st', Val (VInt (a + zsum ws))) /\ same st st'.
  Proof.
    intros S Q Ln.
    assert (U : unflagged st = ws).
    { unfold unflagged. clear -Q. induction ws as [|x l IH]; [reflexivity|]. cbn [filter]. rewrite (Q x (or_introl eq_refl)). cbn [negb].
      rewrite IH; [reflexivity | intros w Hw; apply Q; right; exact Hw]. }
    destruct (stack_value (length ws) n st S ltac:(rewrite U; reflexivity) Ln) as [st' [E Sm]].
    exists st'. rewrite U in E. split; assumption.
  Qed.
End Stack.
