(* The deep copy shares nothing with the original and is closed under its references. *)
From PyrollLib Require Import Heap.
From Coq Require Import Lia.

Definition in_copy (n0 : nat) (h : heap) (t : addr) : Prop := n0 <= t < length h.

Record Inv (h0 : heap) (s : state) : Prop := {
  inv_len : length h0 <= length (fst s);
  inv_memo : forall x y, In (x, y) (snd s) -> in_copy (length h0) (fst s) y;
  inv_closed : forall i o, length h0 <= i -> nth_error (fst s) i = Some o -> forall k t, In (k, t) (fields o) -> in_copy (length h0) (fst s) t;
  inv_orig : firstn (length h0) (fst s) = h0
}.

Lemma mlookup_in m a y : mlookup m a = Some y -> exists x, In (x, y) m.
Proof.
  induction m as [|[x z] rest IH]; cbn [mlookup]; [discriminate|].
  destruct (Nat.eqb x a); intro H; [inversion H; subst; exists x; left; reflexivity|].
  destruct (IH H) as [x' I]. exists x'. right. exact I.
Qed.

Lemma length_set_nth h i o : length (set_nth h i o) = length h.
Proof. revert i. induction h as [|x t IH]; intro i; [reflexivity|]. destruct i; cbn [set_nth length]; [reflexivity | rewrite IH; reflexivity]. Qed.

Lemma nth_set_nth_same h i o : i < length h -> nth_error (set_nth h i o) i = Some o.
Proof. revert i. induction h as [|x t IH]; intros i L; [cbn in L; lia|]. destruct i; cbn [set_nth nth_error]; [reflexivity | apply IH; cbn in L; lia]. Qed.

Lemma nth_set_nth_other h i j o : i <> j -> nth_error (set_nth h i o) j = nth_error h j.
Proof.
  revert i j. induction h as [|x t IH]; intros i j N; [destruct i; reflexivity|].
  destruct i, j; cbn [set_nth nth_error]; try reflexivity; [contradiction | apply IH; lia].
Qed.

Lemma firstn_set_nth h i o n : n <= i -> firstn n (set_nth h i o) = firstn n h.
Proof.
  revert i n. induction h as [|x t IH]; intros i n L; [destruct i; reflexivity|].
  destruct i; [assert (n = 0) by lia; subst; reflexivity|].
  destruct n; [reflexivity|]. cbn [set_nth firstn]. f_equal. apply IH. lia.
Qed.

(* what a copier must guarantee for copy_fields to preserve the invariant *)
Definition good_rec (h0 : heap) (rec : state -> addr -> option (state * addr)) : Prop :=
  forall s a s' a', Inv h0 s -> rec s a = Some (s', a') ->
    Inv h0 s' /\ in_copy (length h0) (fst s') a' /\ length (fst s) <= length (fst s').

Lemma copy_fields_inv h0 rec fs : good_rec h0 rec -> forall s s' out, Inv h0 s -> copy_fields rec fs s = Some (s', out) ->
  Inv h0 s' /\ length (fst s) <= length (fst s') /\ (forall k t, In (k, t) out -> in_copy (length h0) (fst s') t) /\
  map fst out = map fst fs.
Proof.
  intro G. induction fs as [|[k t] rest IH]; intros s s' out I E; cbn [copy_fields] in E.
  - inversion E; subst. split; [exact I|]. split; [lia|]. split; [intros ? ? []| reflexivity].
  - destruct (rec s t) as [[s1 t']|] eqn:R; [|discriminate].
    destruct (copy_fields rec rest s1) as [[s2 out']|] eqn:C; [|discriminate]. inversion E; subst.
    destruct (G _ _ _ _ I R) as [I1 [T1 L1]]. destruct (IH _ _ _ I1 C) as [I2 [L2 [O2 M2]]].
    split; [exact I2|]. split; [lia|]. split; [|cbn [map fst]; f_equal; exact M2].
    intros k' t'' [H|H]; [inversion H; subst; unfold in_copy in *; lia | apply (O2 _ _ H)].
Qed.

Lemma dcopy_good h0 fuel : good_rec h0 (dcopy fuel).
Proof.
  induction fuel as [|f IH]; intros [h m] a s' a' I E; cbn [dcopy] in E.
  - destruct (mlookup m a) as [y|] eqn:L; [|discriminate]. inversion E; subst.
    destruct (mlookup_in _ _ _ L) as [x Hx]. split; [exact I|]. split; [apply (inv_memo _ _ I x); exact Hx | lia].
  - destruct (mlookup m a) as [y|] eqn:L.
    { inversion E; subst. destruct (mlookup_in _ _ _ L) as [x Hx].
      split; [exact I|]. split; [apply (inv_memo _ _ I x); exact Hx | lia]. }
    destruct (nth_error h a) as [o|] eqn:N; [|discriminate].
    set (a1 := length h) in *.
    set (h1 := h ++ [{| early := early o; fields := [] |}]) in *.
    set (m1 := if early o then (a, a1) :: m else m) in *.
    destruct (copy_fields (dcopy f) (fields o) (h1, m1)) as [[[h2 m2] out]|] eqn:C; [|discriminate].
    inversion E; subst s' a'. clear E.
    pose proof (inv_len _ _ I) as L0. cbn [fst snd] in L0.
    assert (Lh1 : length h1 = S (length h)) by (unfold h1; rewrite app_length; cbn; lia).
    assert (I1 : Inv h0 (h1, m1)).
    { constructor; cbn [fst snd].
      - lia.
      - intros x y Hxy. unfold in_copy. unfold m1 in Hxy. destruct (early o).
        + destruct Hxy as [H|H]; [inversion H; subst; unfold a1; lia|]. pose proof (inv_memo _ _ I x y H) as P. unfold in_copy in P. cbn [fst] in P. lia.
        + pose proof (inv_memo _ _ I x y Hxy) as P. unfold in_copy in P. cbn [fst] in P. lia.
      - intros i o' Li Ni k t Hk. unfold h1 in Ni.
        destruct (Nat.lt_ge_cases i (length h)) as [Lt|Ge].
        + rewrite nth_error_app1 in Ni by exact Lt. pose proof (inv_closed _ _ I i o' Li Ni k t Hk) as P. unfold in_copy in *. cbn [fst] in P. lia.
        + rewrite nth_error_app2 in Ni by exact Ge. destruct (i - length h) as [|j] eqn:D; cbn in Ni; [inversion Ni; subst; destruct Hk | destruct j; discriminate].
      - unfold h1. rewrite firstn_app. replace (length h0 - length h) with 0 by lia. cbn [firstn]. rewrite app_nil_r. apply (inv_orig _ _ I). }
    destruct (copy_fields_inv h0 (dcopy f) (fields o) IH _ _ _ I1 C) as [I2 [L2 [O2 _]]]. cbn [fst snd] in *.
    assert (A1 : a1 < length h2) by lia.
    split; [|split]; cbn [fst snd].
    + constructor; cbn [fst snd].
      * rewrite length_set_nth. pose proof (inv_len _ _ I2). cbn [fst] in *. lia.
      * intros x y Hxy. unfold in_copy. rewrite length_set_nth.
        assert (P : (x, y) = (a, a1) \/ In (x, y) m2) by (destruct (early o); [right; exact Hxy | destruct Hxy as [H|H]; [left; symmetry; exact H | right; exact H]]).
        destruct P as [P|P]; [inversion P; subst; unfold a1; lia|]. pose proof (inv_memo _ _ I2 x y P) as Q. unfold in_copy in Q. cbn [fst] in Q. lia.
      * intros i o' Li Ni k t Hk. unfold in_copy. rewrite length_set_nth.
        destruct (Nat.eq_dec a1 i) as [Eq|Ne].
        -- subst i. rewrite nth_set_nth_same in Ni by exact A1. inversion Ni; subst o'. cbn [fields] in Hk.
           pose proof (O2 k t Hk) as Q. unfold in_copy in Q. lia.
        -- rewrite nth_set_nth_other in Ni by exact Ne. pose proof (inv_closed _ _ I2 i o' Li Ni k t Hk) as Q. unfold in_copy in Q. cbn [fst] in Q. lia.
      * rewrite firstn_set_nth by (unfold a1; lia). apply (inv_orig _ _ I2).
    + unfold in_copy. rewrite length_set_nth. unfold a1. lia.
    + rewrite length_set_nth. lia.
Qed.

Lemma Inv_init h0 : Inv h0 (h0, []).
Proof.
  constructor; cbn [fst snd]; [lia | intros ? ? [] | | apply firstn_all].
  intros i o L N. assert (i < length h0) by (apply nth_error_Some; congruence). lia.
Qed.
