(* The deep copy shares nothing with the original and is closed under its references. *)
From PyrollLib Require Import Heap.
From Coq Require Import Lia.

Definition in_copy (n0 : nat) (h : heap) (t : addr) : Prop := n0 <= t < length h.

Record Inv (h0 : heap) (s : state) : Prop := {
  inv_len : length h0 <= length (fst s);
  inv_memo : forall x y, In (x, y) (snd s) -> in_copy (length h0) (fst s) y;
  inv_closed : forall i o, length h0 <= i -> nth_error (fst s) i = Some o -> forall k t, In (k, t) (fields o) -> k <> Dead -> in_copy (length h0) (fst s) t;
  inv_orig : firstn (length h0) (fst s) = h0
}.

Lemma mlookup_in m a y : mlookup m a = Some y -> exists x, In (x, y) m.
Proof.
  induction m as [|[x z] rest IH]; cbn [mlookup]; [discriminate|].
  destruct (Nat.eqb x a); intro H; [inversion H; subst; exists x; left; reflexivity|].
  destruct (IH H) as [x' I]. exists x'. right. exact I.
Qed.

Lemma length_set_nth h i o : length (set_nth h i o) = length h.
Proof. revert i. induction h as [|x t IH]; intro i; [reflexivity|]. destruct i; cbn [set_nth length]; [reflexivity | rewrite IH; reflexivity]. Qed.

Lemma nth_set_nth_same h i o : i < length h -> nth_error (set_nth h i o) i = Some o.
Proof. revert i. induction h as [|x t IH]; intros i L; [cbn in L; lia|]. destruct i; cbn [set_nth nth_error]; [reflexivity | apply IH; cbn in L; lia]. Qed.

Lemma nth_set_nth_other h i j o : i <> j -> nth_error (set_nth h i o) j = nth_error h j.
Proof.
  revert i j. induction h as [|x t IH]; intros i j N; [destruct i; reflexivity|].
  destruct i, j; cbn [set_nth nth_error]; try reflexivity; [contradiction | apply IH; lia].
Qed.

Lemma firstn_set_nth h i o n : n <= i -> firstn n (set_nth h i o) = firstn n h.
Proof.
  revert i n. induction h as [|x t IH]; intros i n L; [destruct i; reflexivity|].
  destruct i; [assert (n = 0) by lia; subst; reflexivity|].
  destruct n; [reflexivity|]. cbn [set_nth firstn]. f_equal. apply IH. lia.
Qed.

(* what a copier must guarantee for copy_fields to preserve the invariant *)
Definition good_rec (h0 : heap) (rec : state -> addr -> option (state * addr)) : Prop :=
  forall s a s' a', Inv h0 s -> rec s a = Some (s', a') ->
    Inv h0 s' /\ in_copy (length h0) (fst s') a' /\ length (fst s) <= length (fst s').

Lemma copy_fields_inv h0 kd rec fs : good_rec h0 rec -> forall s s' out, Inv h0 s -> copy_fields_with kd rec fs s = Some (s', out) ->
  Inv h0 s' /\ length (fst s) <= length (fst s') /\ (forall k t, In (k, t) out -> k <> Dead -> in_copy (length h0) (fst s') t) /\
  map fst out = map fst fs.
Proof.
  intro G. induction fs as [|[k t] rest IH]; intros s s' out I E.
  - cbn [copy_fields_with] in E. inversion E; subst. split; [exact I|]. split; [lia|]. split; [intros ? ? []| reflexivity].
  - destruct k; cbn [copy_fields_with] in E.
    3: { destruct kd; [|discriminate].
         destruct (copy_fields_with true rec rest s) as [[s2 out']|] eqn:C; [|discriminate]. inversion E; subst.
         destruct (IH _ _ _ I C) as [I2 [L2 [O2 M2]]].
         split; [exact I2|]. split; [exact L2|]. split; [|cbn [map fst]; f_equal; exact M2].
         intros k' t'' [H|H] ND; [inversion H; subst; contradiction | apply (O2 _ _ H ND)]. }
    all: destruct (rec s t) as [[s1 t']|] eqn:R; [|discriminate];
      destruct (copy_fields_with kd rec rest s1) as [[s2 out']|] eqn:C; [|discriminate]; inversion E; subst;
      destruct (G _ _ _ _ I R) as [I1 [T1 L1]]; destruct (IH _ _ _ I1 C) as [I2 [L2 [O2 M2]]];
      (split; [exact I2|]); (split; [lia|]); (split; [|cbn [map fst]; f_equal; exact M2]);
      intros k' t'' [H|H] ND; [inversion H; subst; unfold in_copy in *; lia | apply (O2 _ _ H ND)].
Qed.

Lemma dcopy_good h0 kd fuel : good_rec h0 (dcopy_with kd fuel).
Proof.
  induction fuel as [|f IH]; intros [h m] a s' a' I E; cbn [dcopy_with] in E.
  - destruct (mlookup m a) as [y|] eqn:L; [|discriminate]. inversion E; subst.
    destruct (mlookup_in _ _ _ L) as [x Hx]. split; [exact I|]. split; [apply (inv_memo _ _ I x); exact Hx | lia].
  - destruct (mlookup m a) as [y|] eqn:L.
    { inversion E; subst. destruct (mlookup_in _ _ _ L) as [x Hx].
      split; [exact I|]. split; [apply (inv_memo _ _ I x); exact Hx | lia]. }
    destruct (nth_error h a) as [o|] eqn:N; [|discriminate].
    set (a1 := length h) in *.
    set (h1 := h ++ [{| early := early o; fields := [] |}]) in *.
    set (m1 := if early o then (a, a1) :: m else m) in *.
    destruct (copy_fields_with kd (dcopy_with kd f) (fields o) (h1, m1)) as [[[h2 m2] out]|] eqn:C; [|discriminate].
    inversion E; subst s' a'. clear E.
    pose proof (inv_len _ _ I) as L0. cbn [fst snd] in L0.
    assert (Lh1 : length h1 = S (length h)) by (unfold h1; rewrite app_length; cbn; lia).
    assert (I1 : Inv h0 (h1, m1)).
    { constructor; cbn [fst snd].
      - lia.
      - intros x y Hxy. unfold in_copy. unfold m1 in Hxy. destruct (early o).
        + destruct Hxy as [H|H]; [inversion H; subst; unfold a1; lia|]. pose proof (inv_memo _ _ I x y H) as P. unfold in_copy in P. cbn [fst] in P. lia.
        + pose proof (inv_memo _ _ I x y Hxy) as P. unfold in_copy in P. cbn [fst] in P. lia.
      - intros i o' Li Ni k t Hk ND. unfold h1 in Ni.
        destruct (Nat.lt_ge_cases i (length h)) as [Lt|Ge].
        + rewrite nth_error_app1 in Ni by exact Lt. pose proof (inv_closed _ _ I i o' Li Ni k t Hk ND) as P. unfold in_copy in *. cbn [fst] in P. lia.
        + rewrite nth_error_app2 in Ni by exact Ge. destruct (i - length h) as [|j] eqn:D; cbn in Ni; [inversion Ni; subst; destruct Hk | destruct j; discriminate].
      - unfold h1. rewrite firstn_app. replace (length h0 - length h) with 0 by lia. cbn [firstn]. rewrite app_nil_r. apply (inv_orig _ _ I). }
    destruct (copy_fields_inv h0 kd (dcopy_with kd f) (fields o) IH _ _ _ I1 C) as [I2 [L2 [O2 _]]]. cbn [fst snd] in *.
    assert (A1 : a1 < length h2) by lia.
    split; [|split]; cbn [fst snd].
    + constructor; cbn [fst snd].
      * rewrite length_set_nth. pose proof (inv_len _ _ I2). cbn [fst] in *. lia.
      * intros x y Hxy. unfold in_copy. rewrite length_set_nth.
        assert (P : (x, y) = (a, a1) \/ In (x, y) m2) by (destruct (early o); [right; exact Hxy | destruct Hxy as [H|H]; [left; symmetry; exact H | right; exact H]]).
        destruct P as [P|P]; [inversion P; subst; unfold a1; lia|]. pose proof (inv_memo _ _ I2 x y P) as Q. unfold in_copy in Q. cbn [fst] in Q. lia.
      * intros i o' Li Ni k t Hk ND. unfold in_copy. rewrite length_set_nth.
        destruct (Nat.eq_dec a1 i) as [Eq|Ne].
        -- subst i. rewrite nth_set_nth_same in Ni by exact A1. inversion Ni; subst o'. cbn [fields] in Hk.
           pose proof (O2 k t Hk ND) as Q. unfold in_copy in Q. lia.
        -- rewrite nth_set_nth_other in Ni by exact Ne. pose proof (inv_closed _ _ I2 i o' Li Ni k t Hk ND) as Q. unfold in_copy in Q. cbn [fst] in Q. lia.
      * rewrite firstn_set_nth by (unfold a1; lia). apply (inv_orig _ _ I2).
    + unfold in_copy. rewrite length_set_nth. unfold a1. lia.
    + rewrite length_set_nth. lia.
Qed.

Lemma Inv_init h0 : Inv h0 (h0, []).
Proof.
  constructor; cbn [fst snd]; [lia | intros ? ? [] | | apply firstn_all].
  intros i o L N. assert (i < length h0) by (apply nth_error_Some; congruence). lia.
Qed.

(* the kinds of an object's fields survive the copy, position by position: strong stays strong, weak stays weak, a dead reference stays dead
   and nothing else becomes dead *)
Lemma copy_fields_kinds kd rec fs : forall s s' out, copy_fields_with kd rec fs s = Some (s', out) -> map fst out = map fst fs.
Proof.
  induction fs as [|[k t] rest IH]; intros s s' out E.
  - cbn [copy_fields_with] in E. inversion E; reflexivity.
  - destruct k; cbn [copy_fields_with] in E.
    3: { destruct kd; [|discriminate]. destruct (copy_fields_with true rec rest s) as [[s2 out']|] eqn:C; [|discriminate].
         inversion E; subst. cbn [map fst]. f_equal. apply (IH _ _ _ C). }
    all: destruct (rec s t) as [[s1 t']|]; [|discriminate];
      destruct (copy_fields_with kd rec rest s1) as [[s2 out']|] eqn:C; [|discriminate]; inversion E; subst;
      cbn [map fst]; f_equal; apply (IH _ _ _ C).
Qed.

Theorem root_copy_keeps_kinds fuel h0 root h' m r : deepcopy fuel h0 root = Some ((h', m), r) ->
  exists o o', nth_error h0 root = Some o /\ nth_error h' r = Some o' /\ map fst (fields o') = map fst (fields o) /\ early o' = early o.
Proof.
  unfold deepcopy, dcopy. intro E. destruct fuel as [|f]; cbn [dcopy_with mlookup] in E; [discriminate|].
  destruct (nth_error h0 root) as [o|] eqn:N; [|discriminate].
  match type of E with context [copy_fields_with ?a ?b ?c ?d] => destruct (copy_fields_with a b c d) as [[[h2 m2] out]|] eqn:C; [|discriminate] end.
  inversion E; subst. clear E.
  exists o, {| early := early o; fields := out |}. split; [reflexivity|]. split.
  - apply nth_set_nth_same.
    assert (G : good_rec h0 (dcopy_with true f)) by apply dcopy_good.
    assert (I1 : Inv h0 (h0 ++ [{| early := early o; fields := [] |}], if early o then [(root, length h0)] else [])).
    { constructor; cbn [fst snd].
      - rewrite app_length. cbn. lia.
      - intros x y Hxy. unfold in_copy. rewrite app_length. cbn. destruct (early o); [|destruct Hxy].
        destruct Hxy as [H|[]]. inversion H; subst. lia.
      - intros i o' Li Ni k t Hk ND. destruct (Nat.lt_ge_cases i (length h0)) as [Lt|Ge]; [lia|].
        rewrite nth_error_app2 in Ni by exact Ge. destruct (i - length h0) as [|j]; cbn in Ni; [inversion Ni; subst; destruct Hk | destruct j; discriminate].
      - rewrite firstn_app. replace (length h0 - length h0) with 0 by lia. cbn [firstn]. rewrite app_nil_r. apply firstn_all. }
    destruct (copy_fields_inv h0 true (dcopy_with true f) (fields o) G _ _ _ I1 C) as [_ [L2 _]]. cbn [fst] in L2. rewrite app_length in L2. cbn in L2. lia.
  - split; [|reflexivity]. cbn [fields]. apply (copy_fields_kinds _ _ _ _ _ _ C).
Qed.

(* the pinned behaviour (before the repair): one dead back-reference on the object that is copied makes the whole deep copy fail; the repaired copy
   succeeds and keeps the reference dead *)
Definition orphan_heap : heap := [{| early := true; fields := [(Dead, 0); (Strong, 1)] |}; {| early := true; fields := [(Weak, 0)] |}].
Lemma dead_reference_pinned_fails :
  deepcopy_pinned 10 orphan_heap 0 = None /\
  exists h' m, deepcopy 10 orphan_heap 0 = Some ((h', m), 2) /\
               nth_error h' 2 = Some {| early := true; fields := [(Dead, 0); (Strong, 3)] |} /\
               nth_error h' 3 = Some {| early := true; fields := [(Weak, 2)] |}.
Proof. split; [vm_compute; reflexivity|]. eexists. eexists. vm_compute. repeat split. Qed.
