(* The list-editing methods of Unit._SubUnitsList as sequences of primitive effects, in SOURCE order
   (regenerated on every run by tools/py2coq/unitlist_tu.py):
     EList    the call of the inherited list method (super().append / __setitem__ / ...): the list changes
     EDetach  `u.parent = None` for the units that leave        (the "current" ones)
     EAttach  `u.parent = owner` for the units that are added   (the "value")
   UnitTree.update is the normal form  EList ; EDetach ; EAttach.  A method may perform the effects in another order as long
   as it never adopts before it releases: the two orders differ exactly when a unit is released and adopted by the same call
   (an item or slice replaced by units that are already listed there). *)
From PyrollLib Require Import UnitTree.
From Coq Require Import String.

Inductive effect : Type := EList | EDetach | EAttach.

Definition apply_effect (owner : uid) (l' D A : list uid) (s : st) (e : effect) : st :=
  match e with
  | EList => set_kids s owner l'
  | EDetach => detach s D
  | EAttach => attach s owner A
  end.
Definition apply_effects (effs : list effect) (s : st) (owner : uid) (l' D A : list uid) : st :=
  fold_left (apply_effect owner l' D A) effs s.

Definition effect_eqb (a b : effect) : bool :=
  match a, b with EList, EList | EDetach, EDetach | EAttach, EAttach => true | _, _ => false end.
Definition has (e : effect) (l : list effect) : bool := existsb (effect_eqb e) l.

(* the admissible orders: exactly one list operation, at most one release loop and one adoption loop, release before adoption *)
Definition ok_orders : list (list effect) :=
  [[EList]; [EList; EDetach]; [EDetach; EList]; [EList; EAttach]; [EAttach; EList];
   [EList; EDetach; EAttach]; [EDetach; EList; EAttach]; [EDetach; EAttach; EList]].
Fixpoint effs_eqb (a b : list effect) : bool :=
  match a, b with
  | [], [] => true
  | x :: r, y :: t => effect_eqb x y && effs_eqb r t
  | _, _ => false
  end.
Definition effects_ok (l : list effect) : bool := existsb (effs_eqb l) ok_orders.

(* what the hand-written model assumes of each method: does it release, does it adopt *)
Definition model_flags : list (string * (bool * bool)) :=
  [("__init__", (false, true)); ("append", (false, true)); ("extend", (false, true)); ("insert", (false, true));
   ("pop", (true, false)); ("remove", (true, false)); ("clear", (true, false));
   ("__setitem__:slice", (true, true)); ("__setitem__:item", (true, true));
   ("__delitem__:slice", (true, false)); ("__delitem__:item", (true, false));
   (* deep copy: the copy's list belongs to the copy of the owner and is filled through the adopting append, element by element *)
   ("__deepcopy__:element", (false, true))]%string.

Fixpoint flags_of (name : string) (t : list (string * (bool * bool))) : option (bool * bool) :=
  match t with [] => None | (n, f) :: r => if String.eqb n name then Some f else flags_of name r end.

Definition method_ok (m : string * list effect) : bool :=
  match flags_of (fst m) model_flags with
  | Some (d, a) => effects_ok (snd m) && Bool.eqb (has EDetach (snd m)) d && Bool.eqb (has EAttach (snd m)) a
  | None => false
  end.
(* every method of the model is present in the regenerated table, and every regenerated method is as modelled *)
Definition methods_ok (gen : list (string * list effect)) : bool :=
  forallb method_ok gen && forallb (fun nf => existsb (fun m => String.eqb (fst m) (fst nf)) gen) model_flags.
