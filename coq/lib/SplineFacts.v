(* Facts about the spline groove model of Surface.v *)
From PyrollLib Require Import Surface.
From Coq Require Import Lia Lqa Field Qfield.

(* ================= rational part ================= *)
Open Scope Q_scope.

Fixpoint incr (p0 : Q * Q) (l : list (Q * Q)) : Prop :=
  match l with [] => True | p1 :: rest => fst p0 < fst p1 /\ incr p1 rest end.

Lemma incr_later p0 l p : incr p0 l -> In p l -> fst p0 < fst p.
Proof.
  revert p0. induction l as [|p1 rest IH]; intros p0 H I; [destruct I|].
  destruct H as [H1 H2]. destruct I as [E|I]; [subst; exact H1|]. specialize (IH p1 H2 I). lra.
Qed.

Lemma seg_left p0 p1 : seg p0 p1 (fst p0) == snd p0.
Proof. unfold seg. setoid_replace (fst p0 - fst p0) with 0 by ring. ring. Qed.

Lemma seg_right p0 p1 : ~ fst p1 == fst p0 -> seg p0 p1 (fst p1) == snd p1.
Proof. intro H. unfold seg. field. intro E. apply H. lra. Qed.

(* the depth function of a spline groove passes through every vertex *)
Lemma pl_eval_node p0 l p : incr p0 l -> In p (p0 :: l) -> pl_eval p0 l (fst p) == snd p.
Proof.
  revert p0. induction l as [|p1 rest IH]; intros p0 H I.
  - destruct I as [E|[]]. subst. reflexivity.
  - destruct H as [H1 H2]. cbn [pl_eval]. destruct I as [E|I].
    + subst p. destruct rest; [apply seg_left|].
      assert (L : Qle_bool (fst p0) (fst p1) = true) by (apply Qle_bool_iff; lra). rewrite L. apply seg_left.
    + destruct rest as [|p2 rest'].
      * destruct I as [E|[]]. subst p. apply seg_right. lra.
      * destruct I as [E|I].
        -- subst p. assert (L : Qle_bool (fst p1) (fst p1) = true) by (apply Qle_bool_iff; lra). rewrite L. apply seg_right. lra.
        -- pose proof (incr_later p1 (p2 :: rest') p H2 I) as Lt.
           destruct (Qle_bool (fst p) (fst p1)) eqn:L; [apply Qle_bool_iff in L; lra|].
           apply IH; [exact H2 | right; exact I].
Qed.

(* a collinear vertex q inserted between p0 and p1 *)
Definition collinear_between (p0 q p1 : Q * Q) : Prop := fst p0 < fst q /\ fst q < fst p1 /\ snd q == seg p0 p1 (fst q).

Lemma seg_refine_left p0 q p1 z : collinear_between p0 q p1 -> seg p0 q z == seg p0 p1 z.
Proof.
  intros [A [B C]]. unfold seg in *. rewrite C. field. split; intro E; lra.
Qed.

Lemma seg_refine_right p0 q p1 z : collinear_between p0 q p1 -> seg q p1 z == seg p0 p1 z.
Proof.
  intros [A [B C]]. unfold seg in *. rewrite C. field. split; intro E; lra.
Qed.

(* refining the polyline by a collinear vertex, anywhere, leaves the depth function unchanged everywhere *)
Lemma pl_eval_refine pre p0 q p1 rest z a : collinear_between p0 q p1 ->
  pl_eval a (pre ++ p0 :: q :: p1 :: rest) z == pl_eval a (pre ++ p0 :: p1 :: rest) z.
Proof.
  intro C. revert a. induction pre as [|b pre IH]; intro a.
  - cbn [app pl_eval].
    assert (INNER : pl_eval p0 (q :: p1 :: rest) z == pl_eval p0 (p1 :: rest) z).
    { cbn [pl_eval]. destruct C as [A [B C']]. destruct (Qle_bool z (fst q)) eqn:L.
      - apply Qle_bool_iff in L.
        assert (E : seg p0 q z == seg p0 p1 z) by (apply seg_refine_left; repeat split; assumption).
        destruct rest; [exact E|]. assert (L1 : Qle_bool z (fst p1) = true) by (apply Qle_bool_iff; lra). rewrite L1. exact E.
      - assert (E : seg q p1 z == seg p0 p1 z) by (apply seg_refine_right; repeat split; assumption).
        destruct rest; [exact E|]. destruct (Qle_bool z (fst p1)); [exact E | reflexivity]. }
    destruct (Qle_bool z (fst p0)); [reflexivity | exact INNER].
  - cbn [app pl_eval]. specialize (IH b).
    destruct pre as [|c pre']; cbn [app] in *; (destruct (Qle_bool z (fst b)); [reflexivity | exact IH]).
Qed.

(* refining the head segment *)
Lemma pl_eval_refine_head p0 q p1 rest z : collinear_between p0 q p1 ->
  pl_eval p0 (q :: p1 :: rest) z == pl_eval p0 (p1 :: rest) z.
Proof.
  intro C. cbn [pl_eval]. destruct C as [A [B C']]. destruct (Qle_bool z (fst q)) eqn:L.
  - apply Qle_bool_iff in L.
    assert (E : seg p0 q z == seg p0 p1 z) by (apply seg_refine_left; repeat split; assumption).
    destruct rest; [exact E|]. assert (L1 : Qle_bool z (fst p1) = true) by (apply Qle_bool_iff; lra). rewrite L1. exact E.
  - assert (E : seg q p1 z == seg p0 p1 z) by (apply seg_refine_right; repeat split; assumption).
    destruct rest; [exact E|]. destruct (Qle_bool z (fst p1)); [exact E | reflexivity].
Qed.

(* ---- centring ---- *)
Lemma Qminl_le d l : Qminl d l <= d.
Proof.
  unfold Qminl. revert d. induction l as [|a l IH]; intro d; cbn [fold_left]; [lra|].
  specialize (IH (Qmin d a)). pose proof (Q.le_min_l d a). lra.
Qed.
Lemma Qminl_lower d l m : m <= d -> (forall x, In x l -> m <= x) -> m <= Qminl d l.
Proof.
  unfold Qminl. revert d. induction l as [|a l IH]; intros d Hd H; cbn [fold_left]; [exact Hd|].
  apply IH; [apply Q.min_glb; [exact Hd | apply H; left; reflexivity] | intros x I; apply H; right; exact I].
Qed.
Lemma Qminl_in d l x : In x l -> Qminl d l <= x.
Proof.
  unfold Qminl. revert d. induction l as [|a l IH]; intros d I; [destruct I|]. cbn [fold_left]. destruct I as [E|I].
  - subst a. pose proof (Qminl_le (Qmin d x) l) as H. unfold Qminl in H. pose proof (Q.le_min_r d x). lra.
  - apply IH. exact I.
Qed.
Lemma Qmaxl_ge d l : d <= Qmaxl d l.
Proof.
  unfold Qmaxl. revert d. induction l as [|a l IH]; intro d; cbn [fold_left]; [lra|].
  specialize (IH (Qmax d a)). pose proof (Q.le_max_l d a). lra.
Qed.
Lemma Qmaxl_upper d l m : d <= m -> (forall x, In x l -> x <= m) -> Qmaxl d l <= m.
Proof.
  unfold Qmaxl. revert d. induction l as [|a l IH]; intros d Hd H; cbn [fold_left]; [exact Hd|].
  apply IH; [apply Q.max_lub; [exact Hd | apply H; left; reflexivity] | intros x I; apply H; right; exact I].
Qed.
Lemma Qmaxl_in d l x : In x l -> x <= Qmaxl d l.
Proof.
  unfold Qmaxl. revert d. induction l as [|a l IH]; intros d I; [destruct I|]. cbn [fold_left]. destruct I as [E|I].
  - subst a. pose proof (Qmaxl_ge (Qmax d x) l) as H. unfold Qmaxl in H. pose proof (Q.le_max_r d x). lra.
  - apply IH. exact I.
Qed.

Lemma minx_le l p : In p l -> minx l <= fst p.
Proof.
  destruct l as [|a t]; intro I; [destruct I|]. cbn [minx]. destruct I as [E|I]; [subst; apply Qminl_le|].
  apply Qminl_in. apply in_map. exact I.
Qed.
Lemma maxx_ge l p : In p l -> fst p <= maxx l.
Proof.
  destruct l as [|a t]; intro I; [destruct I|]. cbn [maxx]. destruct I as [E|I]; [subst; apply Qmaxl_ge|].
  apply Qmaxl_in. apply in_map. exact I.
Qed.
Lemma minx_glb l m : l <> [] -> (forall p, In p l -> m <= fst p) -> m <= minx l.
Proof.
  destruct l as [|a t]; intros N H; [contradiction|]. cbn [minx]. apply Qminl_lower; [apply H; left; reflexivity|].
  intros x I. apply in_map_iff in I. destruct I as [p [E I]]. subst x. apply H. right. exact I.
Qed.
Lemma maxx_lub l m : l <> [] -> (forall p, In p l -> fst p <= m) -> maxx l <= m.
Proof.
  destruct l as [|a t]; intros N H; [contradiction|]. cbn [maxx]. apply Qmaxl_upper; [apply H; left; reflexivity|].
  intros x I. apply in_map_iff in I. destruct I as [p [E I]]. subst x. apply H. right. exact I.
Qed.

(* the centre depends only on the extent: any resampling that keeps all old vertices and adds vertices within the
   old extent (in particular any refinement by collinear vertices, however unevenly distributed) keeps the centre *)
Lemma centre_refine l l' : l <> [] -> (forall p, In p l -> In p l') ->
  (forall p', In p' l' -> minx l <= fst p' <= maxx l) -> centre l' == centre l.
Proof.
  intros N Sub Ext. assert (N' : l' <> []) by (destruct l as [|a t]; [contradiction|]; intro E; specialize (Sub a (or_introl eq_refl)); rewrite E in Sub; destruct Sub).
  assert (A : minx l' == minx l).
  { apply Qle_antisym.
    - apply minx_glb; [exact N|]. intros p I. apply minx_le. apply Sub. exact I.
    - apply minx_glb; [exact N'|]. intros p I. apply Ext. exact I. }
  assert (B : maxx l' == maxx l).
  { apply Qle_antisym.
    - apply maxx_lub; [exact N'|]. intros p I. apply Ext. exact I.
    - apply maxx_lub; [exact N|]. intros p I. apply maxx_ge. apply Sub. exact I. }
  unfold centre. rewrite A, B. reflexivity.
Qed.

(* after centring the extent is symmetric about 0 *)
Lemma shift_extent l c : l <> [] -> minx (map (shift c) l) == minx l - c /\ maxx (map (shift c) l) == maxx l - c.
Proof.
  intro N. assert (N' : map (shift c) l <> []) by (destruct l; [contradiction | discriminate]).
  split; apply Qle_antisym.
  - assert (H : minx (map (shift c) l) + c <= minx l); [|lra].
    apply minx_glb; [exact N|]. intros p I.
    pose proof (minx_le (map (shift c) l) (shift c p) (in_map _ _ _ I)) as H. cbn [shift fst] in H. lra.
  - apply minx_glb; [exact N'|]. intros p' I. apply in_map_iff in I. destruct I as [p [E I]]. subst p'.
    pose proof (minx_le l p I). cbn [shift fst]. lra.
  - apply maxx_lub; [exact N'|]. intros p' I. apply in_map_iff in I. destruct I as [p [E I]]. subst p'.
    pose proof (maxx_ge l p I). cbn [shift fst]. lra.
  - assert (H : maxx l <= maxx (map (shift c) l) + c); [|lra].
    apply maxx_lub; [exact N|]. intros p I.
    pose proof (maxx_ge (map (shift c) l) (shift c p) (in_map _ _ _ I)) as H. cbn [shift fst] in H. lra.
Qed.

Lemma centred_extent l : l <> [] -> minx (map (shift (centre l)) l) == - maxx (map (shift (centre l)) l).
Proof. intro N. destruct (shift_extent l (centre l) N) as [A B]. rewrite A, B. unfold centre. field. Qed.

(* ---------------- boundary stripping ------------------------------------------------------------------------------- *)
(* every given vertex that does not lie on the face is kept - whatever its neighbours are (a single peak between face points,
   two grooves side by side touching the face in between) - and nothing is invented *)
Lemma In_combine_l {A B} (l : list A) : forall (l' : list B) x, length l = length l' -> In x l -> exists y, In (x, y) (combine l l').
Proof.
  induction l as [|a l IH]; intros [|b l'] x Hl Hx; cbn in *; try contradiction; try discriminate.
  destruct Hx as [Hx|Hx].
  - subst a. exists b. left. reflexivity.
  - destruct (IH l' x (eq_add_S _ _ Hl) Hx) as [y Hy]. exists y. right. exact Hy.
Qed.
Lemma length_roll_r {A} (d : A) (l : list A) : length (roll_r d l) = length l.
Proof.
  destruct l as [|a l]; [reflexivity|]. unfold roll_r. cbn [length].
  assert (H : forall (x : A) (m : list A), length (removelast (x :: m)) = length m).
  { intros x m. revert x. induction m as [|y m IH]; intros x; [reflexivity|]. cbn [removelast] in *. cbn [length]. rewrite IH. reflexivity. }
  rewrite H. reflexivity.
Qed.
Lemma length_roll_l {A} (l : list A) : length (roll_l l) = length l.
Proof. destruct l as [|a l]; [reflexivity|]. unfold roll_l. rewrite app_length. cbn [length]. rewrite Nat.add_comm. reflexivity. Qed.

Theorem strip_keeps_every_vertex_off_the_face (pts : list (Q * Q)) (p : Q * Q) :
  In p pts -> close0 (snd p) = false -> In p (strip pts).
Proof.
  intros Hin Hoff. unfold strip, strip_with.
  set (ys := map snd pts).
  assert (L : length pts = length (combine (roll_r 0 ys) (roll_l ys))).
  { rewrite combine_length, length_roll_r, length_roll_l. unfold ys. rewrite map_length, Nat.min_id. reflexivity. }
  destruct (In_combine_l pts _ p L Hin) as [y Hy].
  apply in_map_iff. exists (p, y). split; [reflexivity|].
  apply filter_In. split; [exact Hy|]. cbn [fst snd]. rewrite Hoff. reflexivity.
Qed.
Theorem strip_invents_nothing (own : bool) (pts : list (Q * Q)) (p : Q * Q) : In p (strip_with own pts) -> In p pts.
Proof.
  unfold strip_with. intros H. apply in_map_iff in H. destruct H as [[q y] [E H]]. cbn [fst] in E. subst q.
  apply filter_In in H. destruct H as [H _]. apply in_combine_l in H. exact H.
Qed.
(* repaired defect: the pinned strip (own height not looked at) dropped a peak standing between two face points *)
Lemma strip_pinned_drops_a_peak :
  exists pts p, In p pts /\ close0 (snd p) = false /\ ~ In p (strip_pinned pts) /\ In p (strip pts).
Proof.
  exists [(-4, 0); (-3, 1); (-2, 1); (-1, 0); (0, 1); (1, 0); (2, 1); (3, 1); (4, 0)], (0, 1).
  split; [do 4 right; left; reflexivity|]. split; [reflexivity|]. split.
  - vm_compute. intros H. repeat (destruct H as [H|H]; [discriminate H|]). exact H.
  - vm_compute. do 4 right. left. reflexivity.
Qed.
