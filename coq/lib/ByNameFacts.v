From PyrollLib Require Import ByName.

(* r is a rendering of s: separators inserted anywhere, letters in any case *)
Inductive rendering : list ascii -> list ascii -> Prop :=
| r_nil : rendering [] []
| r_sep c s r : is_sep c = true -> rendering s r -> rendering s (c :: r)
| r_char a b s r : lower a = lower b -> is_sep a = false -> is_sep b = false -> rendering s r -> rendering (a :: s) (b :: r).

Lemma canon_rendering s r : rendering s r -> canon r = canon s.
Proof.
  induction 1 as [|c s r Hc H IH|a b s r Hl Ha Hb H IH]; [reflexivity| |].
  - unfold canon in *. cbn [filter]. rewrite Hc. cbn [negb]. exact IH.
  - unfold canon in *. cbn [filter]. rewrite Ha, Hb. cbn [negb map]. rewrite IH, Hl. reflexivity.
Qed.

Lemma by_name_rendering classes s r :
  rendering (list_ascii_of_string s) (list_ascii_of_string r) -> by_name classes r = by_name classes s.
Proof. intro H. unfold by_name, normalise. rewrite (canon_rendering _ _ H). reflexivity. Qed.

(* every class is found under its own name and under its name without the "Groove" suffix *)
Definition without_suffix (c : string) : string :=
  let l := list_ascii_of_string c in string_of_list_ascii (firstn (length l - 6) l).
Definition named_groove (c : string) : bool := ends_with groove_suffix (map lower (list_ascii_of_string c)).
Definition finds_all (classes : list string) : bool :=
  forallb (fun c => match by_name classes c, by_name classes (without_suffix c) with
                    | Some a, Some b => String.eqb a c && String.eqb b c | _, _ => false end) (filter named_groove classes).

Lemma finds_all_sound classes : finds_all classes = true -> forall c, In c classes -> named_groove c = true ->
  by_name classes c = Some c /\ by_name classes (without_suffix c) = Some c.
Proof.
  intros H c I N. unfold finds_all in H. rewrite forallb_forall in H. specialize (H c (proj2 (filter_In _ _ _) (conj I N))).
  destruct (by_name classes c) as [a|]; [|discriminate]. destruct (by_name classes (without_suffix c)) as [b|]; [|discriminate].
  apply Bool.andb_true_iff in H. destruct H as [A B]. apply String.eqb_eq in A. apply String.eqb_eq in B. subst. split; reflexivity.
Qed.
