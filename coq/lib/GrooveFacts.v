(* Facts about the groove model of Groove.v: numpy's piecewise on an ordered chain, junction continuity,
   the tangent corner, sample bounds, vertices on the depth function, mirror symmetry of the polyline. *)
From PyrollLib Require Import Expr ExprFacts Groove.
From Coq Require Import Lra Lia Nsatz.
Open Scope string_scope.
Open Scope R_scope.

Lemma Rltb_true a b : Rltb a b = true <-> a < b.
Proof. unfold Rltb. destruct (Rlt_dec a b); split; intros; try easy. Qed.
Lemma Rltb_false a b : Rltb a b = false <-> b <= a.
Proof. unfold Rltb. destruct (Rlt_dec a b); split; intros; try easy; lra. Qed.
Lemma Rleb_true a b : Rleb a b = true <-> a <= b.
Proof. unfold Rleb. destruct (Rle_dec a b); split; intros; try easy. Qed.
Lemma Rleb_false a b : Rleb a b = false <-> b < a.
Proof. unfold Rleb. destruct (Rle_dec a b); split; intros; try easy; lra. Qed.

(* ---------- numpy.piecewise on an ordered chain ---------- *)
Fixpoint sorted_from (lo : R) (bfs : list (R * (R -> R))) : Prop :=
  match bfs with [] => True | (b, _) :: rest => lo <= b /\ sorted_from b rest end.
Definition sorted_chain (bfs : list (R * (R -> R))) : Prop :=
  match bfs with [] => True | (b, _) :: rest => sorted_from b rest end.
Fixpoint continuous_chain (f : R -> R) (bfs : list (R * (R -> R))) : Prop :=
  match bfs with [] => True | (b, f') :: rest => f b = f' b /\ continuous_chain f' rest end.

Fixpoint pw_acc (f : R -> R) (bfs : list (R * (R -> R))) (acc : R) (z : R) : R :=
  match bfs with [] => acc | (b, f') :: rest => if Rltb z b then f z else pw_acc f' rest acc z end.

Definition lower_above (z : R) (p : option R * option R * (R -> R)) : Prop :=
  match p with (Some l, _, _) => z < l | _ => False end.

Lemma np_piecewise_none ps acc z : Forall (lower_above z) ps -> np_piecewise ps acc z = acc.
Proof.
  revert acc. induction ps as [|[[lo hi] f] ps IH]; intros acc F; [reflexivity|].
  inversion F as [|? ? L F']; subst. cbn [np_piecewise]. rewrite IH by assumption.
  destruct lo as [l|]; [|contradiction]. cbn in L. unfold pcond.
  assert (E : Rleb l z = false) by (apply Rleb_false; exact L). rewrite E. reflexivity.
Qed.

Lemma chain_pieces_lower b f bfs z : sorted_from b bfs -> z < b -> Forall (lower_above z) (fst (chain_pieces (Some b) f bfs)).
Proof.
  revert b f. induction bfs as [|[b' f'] rest IH]; intros b f S L; cbn [chain_pieces]; [constructor|].
  destruct S as [Hb S']. specialize (IH b' f' S' ltac:(lra)).
  destruct (chain_pieces (Some b') f' rest) as [ps d]. cbn [fst] in *. constructor; [exact L | exact IH].
Qed.

Lemma np_piecewise_chain_acc lo f bfs acc z :
  match lo with None => True | Some l => l <= z end ->
  match lo with None => sorted_chain bfs | Some l => sorted_from l bfs end ->
  np_piecewise (fst (chain_pieces lo f bfs)) acc z = pw_acc f bfs acc z.
Proof.
  revert lo f acc. induction bfs as [|[b f'] rest IH]; intros lo f acc Hlo S; cbn [chain_pieces pw_acc]; [reflexivity|].
  assert (S' : sorted_from b rest) by (destruct lo; cbn in S; tauto).
  pose proof (IH (Some b) f') as IHb.
  pose proof (chain_pieces_lower b f' rest z S') as LW.
  destruct (chain_pieces (Some b) f' rest) as [ps d]. cbn [fst np_piecewise] in *.
  destruct (Rltb z b) eqn:E.
  - apply Rltb_true in E. rewrite np_piecewise_none by (apply LW; exact E).
    unfold pcond. assert (E2 : Rltb z b = true) by (apply Rltb_true; exact E). rewrite E2.
    destruct lo as [l|]; [|reflexivity]. assert (E3 : Rleb l z = true) by (apply Rleb_true; exact Hlo). rewrite E3. reflexivity.
  - unfold pcond. rewrite E, Bool.andb_false_r. apply IHb; [apply Rltb_false in E; exact E | exact S'].
Qed.

Lemma chain_pieces_default lo f bfs z : pw_acc f bfs (snd (chain_pieces lo f bfs) z) z = pw_chain f bfs z.
Proof.
  revert lo f. induction bfs as [|[b f'] rest IH]; intros lo f; cbn [chain_pieces pw_acc pw_chain snd]; [reflexivity|].
  specialize (IH (Some b) f'). destruct (chain_pieces (Some b) f' rest) as [ps d]. cbn [snd] in *.
  destruct (Rltb z b); [reflexivity | exact IH].
Qed.

(* numpy's piecewise over the source's table = first-match reading, when the junctions are ordered *)
Lemma np_piecewise_chain f0 bfs z : sorted_chain bfs ->
  (let (ps, d) := pieces_of_chain f0 bfs in np_piecewise ps (d z) z) = pw_chain f0 bfs z.
Proof.
  intro S. unfold pieces_of_chain.
  pose proof (np_piecewise_chain_acc None f0 bfs (snd (chain_pieces None f0 bfs) z) z I S) as A.
  pose proof (chain_pieces_default None f0 bfs z) as B.
  destruct (chain_pieces None f0 bfs) as [ps d]. cbn [fst snd] in *. rewrite A. exact B.
Qed.

Lemma pw_chain_skip f0 b f1 rest z : b <= z -> pw_chain f0 ((b, f1) :: rest) z = pw_chain f1 rest z.
Proof. intro H. cbn [pw_chain]. assert (E : Rltb z b = false) by (apply Rltb_false; exact H). rewrite E. reflexivity. Qed.

(* closed at the upper end too, by continuity at the junctions (also through empty pieces) *)
Lemma pw_chain_first f0 bfs z : sorted_chain bfs -> continuous_chain f0 bfs ->
  match bfs with [] => True | (b, _) :: _ => z <= b end -> pw_chain f0 bfs z = f0 z.
Proof.
  revert f0. induction bfs as [|[b f1] rest IH]; intros f0 S C Hz; [reflexivity|].
  cbn [pw_chain]. destruct (Rltb z b) eqn:E; [reflexivity|].
  apply Rltb_false in E. assert (z = b) by lra. subst z.
  destruct C as [C0 C1]. rewrite IH.
  - symmetry. exact C0.
  - destruct rest as [|[b2 f2] rest']; [exact I|]. cbn in S. cbn. tauto.
  - exact C1.
  - destruct rest as [|[b2 f2] rest']; [exact I|]. cbn in S. tauto.
Qed.

(* ---------- trigonometry of arcs ---------- *)
Lemma sc1 x : sin x * sin x + cos x * cos x = 1.
Proof. pose proof (sin2_cos2 x) as H. unfold Rsqr in H. exact H. Qed.

Lemma arc_sqrt r s c : 0 <= r -> 0 <= c -> s * s + c * c = 1 -> sqrt (r ^ 2 - (r * s) ^ 2) = r * c.
Proof.
  intros Hr Hc E. replace (r ^ 2 - (r * s) ^ 2) with ((r * c) ^ 2).
  - apply sqrt_pow2. apply Rmult_le_pos; assumption.
  - assert (E2 : c * c = 1 - s * s) by lra.
    replace ((r * c) ^ 2) with (r * r * (c * c)) by ring. rewrite E2. ring.
Qed.

Lemma arc_sqrt_neg r s c : 0 <= r -> 0 <= c -> s * s + c * c = 1 -> sqrt (r ^ 2 - (- (r * s)) ^ 2) = r * c.
Proof. intros. replace ((- (r * s)) ^ 2) with ((r * s) ^ 2) by ring. apply arc_sqrt; assumption. Qed.

Lemma arc_sqrt_cs r s c : 0 <= r -> 0 <= s -> s * s + c * c = 1 -> sqrt (r ^ 2 - (r * c) ^ 2) = r * s.
Proof. intros. apply arc_sqrt; [assumption | assumption | lra]. Qed.

(* ---------- junction continuity of the analytic pieces ---------- *)
Section Junctions.
  Variable rho : env.
  Hypothesis W : wellformed rho.

  Lemma cont_z7 : hf_ground rho (hz7 rho) = hf_r4 rho (hz7 rho).
  Proof.
    unfold hf_ground, hf_r4, hz8, hy8, hy9. replace (hz7 rho - hz7 rho) with 0 by ring.
    replace (rho "r4" ^ 2 - 0 ^ 2) with (rho "r4" ^ 2) by ring. rewrite sqrt_pow2 by (apply (wf_r4 rho W)). ring.
  Qed.

  Lemma r4_at_z6 : hf_r4 rho (hz6 rho) = hy6 rho.
  Proof.
    unfold hf_r4, hy6, hz6. replace (hz8 rho + rho "r4" * sin (rho "alpha4") - hz8 rho) with (rho "r4" * sin (rho "alpha4")) by ring.
    rewrite (arc_sqrt _ _ (cos (rho "alpha4"))); [reflexivity | apply (wf_r4 rho W) | apply (wf_ca4 rho W) | apply sc1].
  Qed.

  Lemma a3b : rho "alpha3" / 2 + hbeta rho = rho "alpha4".
  Proof. unfold hbeta. field. Qed.

  Lemma r3_at_z6 : hf_r3 rho (hz6 rho) = hy6 rho.
  Proof.
    unfold hf_r3, hy10, hz10.
    replace (hz6 rho - (hz6 rho + rho "r3" * sin (rho "alpha3" / 2 + hbeta rho))) with (- (rho "r3" * sin (rho "alpha3" / 2 + hbeta rho))) by ring.
    rewrite (arc_sqrt_neg _ _ (cos (rho "alpha3" / 2 + hbeta rho))); [ring | apply (wf_r3 rho W) | rewrite a3b; apply (wf_ca4 rho W) | apply sc1].
  Qed.

  Lemma cont_z6 : hf_r4 rho (hz6 rho) = hf_r3 rho (hz6 rho).
  Proof. rewrite r4_at_z6, r3_at_z6. reflexivity. Qed.

  Lemma r3_at_z5 : hf_r3 rho (hz5 rho) = hy5 rho.
  Proof.
    unfold hf_r3, hy5, hz5.
    replace (hz10 rho + rho "r3" * sin (rho "alpha3" / 2 - hbeta rho) - hz10 rho) with (rho "r3" * sin (rho "alpha3" / 2 - hbeta rho)) by ring.
    rewrite (arc_sqrt _ _ (cos (rho "alpha3" / 2 - hbeta rho))); [reflexivity | apply (wf_r3 rho W) | apply (wf_c35 rho W) | apply sc1].
  Qed.

  Lemma r2_at_z5 : hf_r2 rho (hz5 rho) = hy5 rho.
  Proof.
    unfold hf_r2, hy5, hz5, hy11, hz11.
    replace (hz10 rho + rho "r3" * sin (rho "alpha3" / 2 - hbeta rho) - (hz10 rho + (rho "r3" - rho "r2") * sin (rho "alpha3" / 2 - hbeta rho)))
      with (rho "r2" * sin (rho "alpha3" / 2 - hbeta rho)) by ring.
    rewrite (arc_sqrt _ _ (cos (rho "alpha3" / 2 - hbeta rho))); [ring | apply (wf_r2 rho W) | apply (wf_c35 rho W) | apply sc1].
  Qed.

  Lemma cont_z5 : hf_r3 rho (hz5 rho) = hf_r2 rho (hz5 rho).
  Proof. rewrite r3_at_z5, r2_at_z5. reflexivity. Qed.

  Lemma r2_at_z4 : hf_r2 rho (hz4 rho) = hy4 rho.
  Proof.
    unfold hf_r2, hy4, hz4.
    replace (hz11 rho + rho "r2" * cos (hgamma rho) - hz11 rho) with (rho "r2" * cos (hgamma rho)) by ring.
    rewrite (arc_sqrt_cs _ (sin (hgamma rho))); [reflexivity | apply (wf_r2 rho W) | apply (wf_sg rho W) | apply sc1].
  Qed.

  Lemma cont_z4 : hf_r2 rho (hz4 rho) = hf_flank rho (hz4 rho).
  Proof. rewrite r2_at_z4. symmetry. apply (wf_closed rho W). Qed.

  Lemma flank_at_z3 : hf_flank rho (hz3 rho) = hy3 rho.
  Proof. unfold hf_flank. ring. Qed.

  Lemma r1_at_z3 : hf_r1 rho (hz3 rho) = hy3 rho.
  Proof.
    unfold hf_r1, hy3, hz3.
    replace (hz12 rho - rho "r1" * sin (rho "flank_angle") - hz12 rho) with (- (rho "r1" * sin (rho "flank_angle"))) by ring.
    rewrite (arc_sqrt_neg _ _ (cos (rho "flank_angle"))); [reflexivity | apply (wf_r1 rho W) | apply Rlt_le, (wf_cfa rho W) | apply sc1].
  Qed.

  Lemma cont_z3 : hf_flank rho (hz3 rho) = hf_r1 rho (hz3 rho).
  Proof. rewrite flank_at_z3, r1_at_z3. reflexivity. Qed.

  Lemma r1_at_z1 : hf_r1 rho (hz1 rho) = hy1 rho.
  Proof.
    unfold hf_r1, hy12, hz12.
    replace (hz1 rho - (hz1 rho - rho "r1" * sin (rho "pad_angle"))) with (rho "r1" * sin (rho "pad_angle")) by ring.
    rewrite (arc_sqrt _ _ (cos (rho "pad_angle"))); [ring | apply (wf_r1 rho W) | apply Rlt_le, (wf_cpa rho W) | apply sc1].
  Qed.

  Lemma face_at_z1 : hf_face rho (hz1 rho) = hy1 rho.
  Proof. unfold hf_face. ring. Qed.

  Lemma cont_z1 : hf_r1 rho (hz1 rho) = hf_face rho (hz1 rho).
  Proof. rewrite r1_at_z1, face_at_z1. reflexivity. Qed.

  Lemma face_at_z0 : hf_face rho (hz0 rho) = hy0 rho.
  Proof.
    unfold hf_face, hy0, hz0, tan. pose proof (wf_cpa rho W). field. lra.
  Qed.

  (* the face line leaves the usable-width corner (z2, 0) *)
  Lemma face_at_z2 : hf_face rho (hz2 rho) = 0.
  Proof. unfold hf_face, hy1, hz1, tan. pose proof (wf_cpa rho W). field. lra. Qed.

  (* tangent corner: the flank line through (z3, y3) meets the roll face exactly at half the usable width *)
  Lemma flank_at_z2 : hf_flank rho (hz2 rho) = 0.
  Proof.
    pose proof (wf_cfa rho W) as Cf. pose proof (wf_ch rho W) as Ch.
    unfold hf_flank, hy3, hz3, hy12, hz12, hy1, hz1, hl12, halpha1 in *.
    set (f := rho "flank_angle") in *. set (p := rho "pad_angle") in *. set (r := rho "r1"). set (z2 := hz2 rho).
    set (h := (f + p) / 2) in *.
    assert (Ef : f = 2 * h - p) by (unfold h; field).
    unfold tan. rewrite Ef. rewrite Ef in Cf.
    rewrite sin_minus, cos_minus in *. rewrite sin_2a, cos_2a in *.
    pose proof (sc1 h) as Sh. pose proof (sc1 p) as Sp.
    set (sh := sin h) in *. set (ch := cos h) in *. set (sp := sin p) in *. set (cp := cos p) in *.
    field_simplify_eq; [|split; lra]. simpl.
    nsatz.
  Qed.

  Lemma hchain_sorted : sorted_chain (hchain rho).
  Proof. cbn. pose proof (wf_o76 rho W). pose proof (wf_o65 rho W). pose proof (wf_o54 rho W). pose proof (wf_o43 rho W). pose proof (wf_o31 rho W). tauto. Qed.

  Lemma hchain_continuous : continuous_chain (hf_ground rho) (hchain rho).
  Proof. cbn. repeat split; [apply cont_z7 | apply cont_z6 | apply cont_z5 | apply cont_z4 | apply cont_z3 | apply cont_z1]. Qed.

  Lemma hlocal_depth_chain z : hlocal_depth rho z = pw_chain (hf_ground rho) (hchain rho) (Rabs z).
  Proof. unfold hlocal_depth. apply (np_piecewise_chain (hf_ground rho) (hchain rho) (Rabs z)). apply hchain_sorted. Qed.

  Lemma hlocal_depth_even z : hlocal_depth rho (- z) = hlocal_depth rho z.
  Proof. unfold hlocal_depth. rewrite Rabs_Ropp. reflexivity. Qed.

  (* the depth function on each closed junction interval *)
  Ltac ords := pose proof (wf_o97 rho W); pose proof (wf_o76 rho W); pose proof (wf_o65 rho W); pose proof (wf_o54 rho W);
               pose proof (wf_o43 rho W); pose proof (wf_o31 rho W); pose proof (wf_o10 rho W).
  Ltac tailc := first [ exact I | cbn; pose proof hchain_continuous as HC; cbn in HC; tauto ].

  Lemma depth_on_ground z : 0 <= z <= hz7 rho -> hlocal_depth rho z = hf_ground rho z.
  Proof.
    intros [Z0 Z1]. rewrite hlocal_depth_chain, Rabs_pos_eq by assumption.
    apply pw_chain_first; [apply hchain_sorted | apply hchain_continuous | exact Z1].
  Qed.

  Lemma depth_on_r4 z : hz7 rho <= z <= hz6 rho -> hlocal_depth rho z = hf_r4 rho z.
  Proof.
    intros [Z0 Z1]. ords. rewrite hlocal_depth_chain, Rabs_pos_eq by lra. unfold hchain.
    rewrite pw_chain_skip by lra.
    pose proof hchain_sorted as S. pose proof hchain_continuous as C. cbn in S, C.
    apply pw_chain_first; cbn; tauto.
  Qed.

  Lemma depth_on_r3 z : hz6 rho <= z <= hz5 rho -> hlocal_depth rho z = hf_r3 rho z.
  Proof.
    intros [Z0 Z1]. ords. rewrite hlocal_depth_chain, Rabs_pos_eq by lra. unfold hchain.
    rewrite !pw_chain_skip by lra.
    pose proof hchain_sorted as S. pose proof hchain_continuous as C. cbn in S, C.
    apply pw_chain_first; cbn; tauto.
  Qed.

  Lemma depth_on_r2 z : hz5 rho <= z <= hz4 rho -> hlocal_depth rho z = hf_r2 rho z.
  Proof.
    intros [Z0 Z1]. ords. rewrite hlocal_depth_chain, Rabs_pos_eq by lra. unfold hchain.
    rewrite !pw_chain_skip by lra.
    pose proof hchain_sorted as S. pose proof hchain_continuous as C. cbn in S, C.
    apply pw_chain_first; cbn; tauto.
  Qed.

  Lemma depth_on_flank z : hz4 rho <= z <= hz3 rho -> hlocal_depth rho z = hf_flank rho z.
  Proof.
    intros [Z0 Z1]. ords. rewrite hlocal_depth_chain, Rabs_pos_eq by lra. unfold hchain.
    rewrite !pw_chain_skip by lra.
    pose proof hchain_sorted as S. pose proof hchain_continuous as C. cbn in S, C.
    apply pw_chain_first; cbn; tauto.
  Qed.

  Lemma depth_on_r1 z : hz3 rho <= z <= hz1 rho -> hlocal_depth rho z = hf_r1 rho z.
  Proof.
    intros [Z0 Z1]. ords. rewrite hlocal_depth_chain, Rabs_pos_eq by lra. unfold hchain.
    rewrite !pw_chain_skip by lra.
    pose proof hchain_sorted as S. pose proof hchain_continuous as C. cbn in S, C.
    apply pw_chain_first; cbn; tauto.
  Qed.

  Lemma depth_on_face z : hz1 rho <= z -> hlocal_depth rho z = hf_face rho z.
  Proof.
    intros Z0. ords. rewrite hlocal_depth_chain, Rabs_pos_eq by lra. unfold hchain.
    rewrite !pw_chain_skip by lra. reflexivity.
  Qed.
End Junctions.

(* ---------- linspace samples stay between their end points ---------- *)
Lemma sample_between_down a b n i : (i < n)%nat -> b <= a -> b <= sample a b n i <= a.
Proof.
  intros Hi Hab. unfold sample.
  assert (Hn : 0 < INR n) by (apply lt_0_INR; lia).
  assert (H0 : 0 <= INR i) by apply pos_INR.
  assert (H1 : INR i < INR n) by (apply lt_INR; exact Hi).
  set (t := INR i / INR n).
  assert (T0 : 0 <= t) by (unfold t, Rdiv; apply Rmult_le_pos; [exact H0 | apply Rlt_le, Rinv_0_lt_compat; exact Hn]).
  assert (T1 : t <= 1).
  { unfold t. apply (Rmult_le_reg_r (INR n)); [exact Hn|]. unfold Rdiv. rewrite Rmult_assoc, Rinv_l by lra. lra. }
  replace ((b - a) * INR i / INR n) with ((b - a) * t) by (unfold t; field; lra).
  split; nra.
Qed.

(* ---------- mirror symmetry of the polyline ---------- *)
Open Scope list_scope.
Lemma mirror_invol p : mirror (mirror p) = p.
Proof. destruct p as [z y]. unfold mirror. cbn. rewrite Ropp_involutive. reflexivity. Qed.

Lemma map_mirror_invol l : map mirror (map mirror l) = l.
Proof. induction l as [|p l IH]; cbn [map]; [reflexivity | rewrite mirror_invol, IH; reflexivity]. Qed.

(* the contour read from right to left and mirrored is the contour itself, provided the last point of the right half
   (the groove centre, z9 = 0) lies on the axis *)
Lemma full_contour_symmetric (right : list (R * R)) (c : R * R) (init : list (R * R)) :
  right = init ++ [c] -> fst c = 0 -> map mirror (rev (full_contour right)) = full_contour right.
Proof.
  intros E C0. subst right. unfold full_contour. rewrite removelast_last.
  rewrite rev_app_distr, !map_app, rev_involutive, map_rev, map_mirror_invol.
  rewrite rev_app_distr. cbn [rev app map].
  assert (M : mirror c = c) by (destruct c as [z y]; cbn in C0; subst z; unfold mirror; cbn; rewrite Ropp_0; reflexivity).
  rewrite map_app. cbn [map]. rewrite M, <- app_assoc. reflexivity.
Qed.
