(* Object graphs with strong and weak references and the deep copy of HookHost.__deepcopy__ / _SubUnitsList.__deepcopy__
   (pyroll/core/hooks.py, pyroll/core/unit/unit.py) driven by copy.deepcopy's memo.  Addresses are indices into the heap.
   An object lists its reference-valued fields in __dict__ order; a field is strong (ordinary value) or weak (weakref.ref).
   `early` = the copy is entered into the memo BEFORE the fields are copied (HookHost.__deepcopy__ does that itself);
   otherwise copy.deepcopy enters it after the object's __deepcopy__ returned (_SubUnitsList).
   Values without references (numbers, strings, sets of strings, geometry) are objects without fields.   No proofs here. *)
From Coq Require Export List Arith Bool.
Export ListNotations.

Definition addr := nat.
Inductive fkind := Strong | Weak.
Record obj := { early : bool; fields : list (fkind * addr) }.
Definition heap := list obj.
Definition memo := list (addr * addr).        (* newest first *)

Fixpoint mlookup (m : memo) (a : addr) : option addr :=
  match m with [] => None | (x, y) :: rest => if Nat.eqb x a then Some y else mlookup rest a end.

Fixpoint set_nth (h : heap) (i : nat) (o : obj) : heap :=
  match h, i with
  | [], _ => []
  | _ :: t, 0 => o :: t
  | x :: t, S j => x :: set_nth t j o
  end.

Definition state := (heap * memo)%type.

(* copy the targets of a field list left to right with the recursive copier `rec` *)
Fixpoint copy_fields (rec : state -> addr -> option (state * addr)) (fs : list (fkind * addr)) (s : state) : option (state * list (fkind * addr)) :=
  match fs with
  | [] => Some (s, [])
  | (k, t) :: rest =>
      match rec s t with
      | None => None
      | Some (s1, t') =>
          match copy_fields rec rest s1 with
          | None => None
          | Some (s2, out) => Some (s2, (k, t') :: out)
          end
      end
  end.

(* copy.deepcopy(x, memo): memo hit, else the object's own __deepcopy__.  Strong and weak fields are copied alike (a weak field whose
   target is in the memo takes the memo's copy, otherwise the target is deep-copied - which is what deepcopy does for any value);
   they differ only in keeping the target alive, which this model does not represent.  fuel = Python's recursion limit. *)
Fixpoint dcopy (fuel : nat) (s : state) (a : addr) : option (state * addr) :=
  let (h, m) := s in
  match mlookup m a with
  | Some a' => Some (s, a')
  | None =>
      match fuel with
      | 0 => None
      | S f =>
          match nth_error h a with
          | None => None
          | Some o =>
              let a' := length h in
              let h1 := h ++ [{| early := early o; fields := [] |}] in
              let m1 := if early o then (a, a') :: m else m in
              match copy_fields (dcopy f) (fields o) (h1, m1) with
              | None => None
              | Some ((h2, m2), out) =>
                  let h3 := set_nth h2 a' {| early := early o; fields := out |} in
                  Some ((h3, if early o then m2 else (a, a') :: m2), a')
              end
          end
      end
  end.

Definition deepcopy (fuel : nat) (h : heap) (root : addr) : option (state * addr) := dcopy fuel (h, []) root.

(* correspondence: the originals in the order in which copy.deepcopy memoises them (oldest first) *)
Definition memo_order (r : option (state * addr)) : option (list addr) :=
  match r with None => None | Some ((_, m), _) => Some (rev (map fst m)) end.
Fixpoint list_nat_eqb (a b : list nat) : bool :=
  match a, b with [], [] => true | x :: a', y :: b' => Nat.eqb x y && list_nat_eqb a' b' | _, _ => false end.
Definition heap_case := (heap * addr * option (list addr))%type.
Definition heap_agrees (c : heap_case) : bool :=
  let '(h, root, expect) := c in
  match memo_order (deepcopy (4 * (length h + 1)) h root), expect with
  | None, None => true
  | Some a, Some b => list_nat_eqb a b
  | _, _ => false
  end.
Fixpoint heap_mismatches (cs : list heap_case) (i : nat) : list nat :=
  match cs with [] => [] | c :: rest => (if heap_agrees c then [] else [i]) ++ heap_mismatches rest (S i) end.
