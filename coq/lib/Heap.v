(* Object graphs with strong and weak references and the deep copy of HookHost.__deepcopy__ / _SubUnitsList.__deepcopy__
   (pyroll/core/hooks.py, pyroll/core/unit/unit.py) driven by copy.deepcopy's memo.  Addresses are indices into the heap.
   An object lists its reference-valued fields in __dict__ order; a field is strong (ordinary value) or weak (weakref.ref).
   `early` = the copy is entered into the memo BEFORE the fields are copied (HookHost.__deepcopy__ does that itself);
   otherwise copy.deepcopy enters it after the object's __deepcopy__ returned (_SubUnitsList).
   Values without references (numbers, strings, sets of strings, geometry) are objects without fields.   No proofs here. *)
From Coq Require Export List Arith Bool.
Export ListNotations.

Definition addr := nat.
(* Dead: a weak reference whose target has been collected (v() is None); its address is meaningless and written as 0 *)
Inductive fkind := Strong | Weak | Dead.
Record obj := { early : bool; fields : list (fkind * addr) }.
Definition heap := list obj.
Definition memo := list (addr * addr).        (* newest first *)

Fixpoint mlookup (m : memo) (a : addr) : option addr :=
  match m with [] => None | (x, y) :: rest => if Nat.eqb x a then Some y else mlookup rest a end.

Fixpoint set_nth (h : heap) (i : nat) (o : obj) : heap :=
  match h, i with
  | [], _ => []
  | _ :: t, 0 => o :: t
  | x :: t, S j => x :: set_nth t j o
  end.

Definition state := (heap * memo)%type.

(* copy the targets of a field list left to right with the recursive copier `rec`.  A dead weak reference has no target: it is kept as it is
   (keep_dead = true, HookHost.__deepcopy__ since the repair); the pinned behaviour (keep_dead = false) deep-copied its target None and failed in
   weakref.ref(None) with TypeError - the whole copy fails *)
Fixpoint copy_fields_with (keep_dead : bool) (rec : state -> addr -> option (state * addr)) (fs : list (fkind * addr)) (s : state)
  : option (state * list (fkind * addr)) :=
  match fs with
  | [] => Some (s, [])
  | (Dead, t) :: rest =>
      if keep_dead then
        match copy_fields_with keep_dead rec rest s with
        | None => None
        | Some (s2, out) => Some (s2, (Dead, t) :: out)
        end
      else None
  | (k, t) :: rest =>
      match rec s t with
      | None => None
      | Some (s1, t') =>
          match copy_fields_with keep_dead rec rest s1 with
          | None => None
          | Some (s2, out) => Some (s2, (k, t') :: out)
          end
      end
  end.
Definition copy_fields := copy_fields_with true.

(* copy.deepcopy(x, memo): memo hit, else the object's own __deepcopy__.  Strong and live weak fields are copied alike (a weak field whose
   target is in the memo takes the memo's copy, otherwise the target is deep-copied - which is what deepcopy does for any value);
   they differ only in keeping the target alive, which this model does not represent.  fuel = Python's recursion limit. *)
Fixpoint dcopy_with (keep_dead : bool) (fuel : nat) (s : state) (a : addr) : option (state * addr) :=
  let (h, m) := s in
  match mlookup m a with
  | Some a' => Some (s, a')
  | None =>
      match fuel with
      | 0 => None
      | S f =>
          match nth_error h a with
          | None => None
          | Some o =>
              let a' := length h in
              let h1 := h ++ [{| early := early o; fields := [] |}] in
              let m1 := if early o then (a, a') :: m else m in
              match copy_fields_with keep_dead (dcopy_with keep_dead f) (fields o) (h1, m1) with
              | None => None
              | Some ((h2, m2), out) =>
                  let h3 := set_nth h2 a' {| early := early o; fields := out |} in
                  Some ((h3, if early o then m2 else (a, a') :: m2), a')
              end
          end
      end
  end.
Definition dcopy := dcopy_with true.

Definition deepcopy (fuel : nat) (h : heap) (root : addr) : option (state * addr) := dcopy fuel (h, []) root.
Definition deepcopy_pinned (fuel : nat) (h : heap) (root : addr) : option (state * addr) := dcopy_with false fuel (h, []) root.

(* correspondence: the originals in the order in which copy.deepcopy memoises them (oldest first) *)
Definition memo_order (r : option (state * addr)) : option (list addr) :=
  match r with None => None | Some ((_, m), _) => Some (rev (map fst m)) end.
Fixpoint list_nat_eqb (a b : list nat) : bool :=
  match a, b with [], [] => true | x :: a', y :: b' => Nat.eqb x y && list_nat_eqb a' b' | _, _ => false end.
Definition heap_case := (heap * addr * option (list addr))%type.
Definition heap_agrees (c : heap_case) : bool :=
  let '(h, root, expect) := c in
  match memo_order (deepcopy (4 * (length h + 1)) h root), expect with
  | None, None => true
  | Some a, Some b => list_nat_eqb a b
  | _, _ => false
  end.
Fixpoint heap_mismatches (cs : list heap_case) (i : nat) : list nat :=
  match cs with [] => [] | c :: rest => (if heap_agrees c then [] else [i]) ++ heap_mismatches rest (S i) end.
