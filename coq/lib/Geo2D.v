(* Plane geometry over R used by C06/C08/C09/C14: rotation about the origin, translation,
   polygon area (shoelace) and perimeter, with their invariance lemmas. *)
From Coq Require Export Reals List Lra.
Export ListNotations.
Open Scope R_scope.

Definition pt : Type := (R * R)%type.
Definition rot (t : R) (p : pt) : pt := (fst p * cos t - snd p * sin t, fst p * sin t + snd p * cos t).
Definition translate (d : pt) (p : pt) : pt := (fst p + fst d, snd p + snd d).
Definition mirror_z (p : pt) : pt := (- fst p, snd p).
Definition dist2 (p q : pt) : R := (fst p - fst q) ^ 2 + (snd p - snd q) ^ 2.
Definition dist (p q : pt) : R := sqrt (dist2 p q).
Definition cross (p q : pt) : R := fst p * snd q - snd p * fst q.

Lemma sc1 t : sin t * sin t + cos t * cos t = 1.
Proof. pose proof (sin2_cos2 t) as H. unfold Rsqr in H. exact H. Qed.

Lemma rot_add a b p : rot a (rot b p) = rot (a + b) p.
Proof. unfold rot. cbn [fst snd]. rewrite cos_plus, sin_plus. f_equal; ring. Qed.

Lemma rot_0 p : rot 0 p = p.
Proof. unfold rot. rewrite cos_0, sin_0. destruct p as [x y]. cbn. f_equal; ring. Qed.

Lemma rot_PI p : rot PI p = (- fst p, - snd p).
Proof. unfold rot. rewrite cos_PI, sin_PI. f_equal; ring. Qed.

Lemma rot_dist2 t p q : dist2 (rot t p) (rot t q) = dist2 p q.
Proof.
  unfold dist2, rot. cbn [fst snd]. pose proof (sc1 t) as H.
  set (s := sin t) in *. set (c := cos t) in *. destruct p as [a b], q as [d e]. cbn [fst snd].
  replace ((a * c - b * s - (d * c - e * s)) ^ 2 + (a * s + b * c - (d * s + e * c)) ^ 2)
    with (((a - d) ^ 2 + (b - e) ^ 2) * (s * s + c * c)) by ring.
  rewrite H. ring.
Qed.

Lemma rot_dist t p q : dist (rot t p) (rot t q) = dist p q.
Proof. unfold dist. rewrite rot_dist2. reflexivity. Qed.

Lemma rot_cross t p q : cross (rot t p) (rot t q) = cross p q.
Proof.
  unfold cross, rot. cbn [fst snd]. pose proof (sc1 t) as H.
  set (s := sin t) in *. set (c := cos t) in *. destruct p as [a b], q as [d e]. cbn [fst snd].
  replace ((a * c - b * s) * (d * s + e * c) - (a * s + b * c) * (d * c - e * s)) with ((a * e - b * d) * (s * s + c * c)) by ring.
  rewrite H. ring.
Qed.

(* twice the signed area of the closed polygon p0 p1 ... pn (closing edge pn -> p0) *)
Fixpoint shoelace_open (l : list pt) : R :=
  match l with
  | p :: ((q :: _) as r) => cross p q + shoelace_open r
  | _ => 0
  end.
Definition shoelace (l : list pt) : R :=
  match l with [] => 0 | p0 :: _ => shoelace_open l + cross (last l p0) p0 end.
Definition area (l : list pt) : R := Rabs (shoelace l) / 2.

Fixpoint perimeter_open (l : list pt) : R :=
  match l with
  | p :: ((q :: _) as r) => dist p q + perimeter_open r
  | _ => 0
  end.
Definition perimeter (l : list pt) : R :=
  match l with [] => 0 | p0 :: _ => perimeter_open l + dist (last l p0) p0 end.

Lemma shoelace_open_map_rot t l : shoelace_open (map (rot t) l) = shoelace_open l.
Proof.
  induction l as [|p l IH]; [reflexivity|]. destruct l as [|q r]; [reflexivity|].
  change (shoelace_open (map (rot t) (p :: q :: r))) with (cross (rot t p) (rot t q) + shoelace_open (map (rot t) (q :: r))).
  rewrite IH, rot_cross. reflexivity.
Qed.

Lemma last_map {A B} (f : A -> B) l d : last (map f l) (f d) = f (last l d).
Proof. induction l as [|x l IH]; [reflexivity|]. destruct l; [reflexivity|]. exact IH. Qed.

Lemma shoelace_map_rot t l : shoelace (map (rot t) l) = shoelace l.
Proof.
  destruct l as [|p0 l]; [reflexivity|]. cbn [map]. unfold shoelace.
  change (rot t p0 :: map (rot t) l) with (map (rot t) (p0 :: l)).
  rewrite shoelace_open_map_rot, last_map, rot_cross. reflexivity.
Qed.

Theorem area_rot t l : area (map (rot t) l) = area l.
Proof. unfold area. rewrite shoelace_map_rot. reflexivity. Qed.

Lemma perimeter_open_map_rot t l : perimeter_open (map (rot t) l) = perimeter_open l.
Proof.
  induction l as [|p l IH]; [reflexivity|]. destruct l as [|q r]; [reflexivity|].
  change (perimeter_open (map (rot t) (p :: q :: r))) with (dist (rot t p) (rot t q) + perimeter_open (map (rot t) (q :: r))).
  rewrite IH, rot_dist. reflexivity.
Qed.

Theorem perimeter_rot t l : perimeter (map (rot t) l) = perimeter l.
Proof.
  destruct l as [|p0 l]; [reflexivity|]. cbn [map]. unfold perimeter.
  change (rot t p0 :: map (rot t) l) with (map (rot t) (p0 :: l)).
  rewrite perimeter_open_map_rot, last_map, rot_dist. reflexivity.
Qed.

Theorem rot_compose a b l : map (rot a) (map (rot b) l) = map (rot (a + b)) l.
Proof. rewrite map_map. apply map_ext. intro p. apply rot_add. Qed.

Theorem rot_congruent t l i j d : dist (nth i (map (rot t) l) (rot t d)) (nth j (map (rot t) l) (rot t d)) = dist (nth i l d) (nth j l d).
Proof. rewrite !map_nth. apply rot_dist. Qed.

(* degrees, as used by shapely.affinity.rotate *)
Definition deg (a : R) : R := a * PI / 180.
Lemma deg_add a b : deg a + deg b = deg (a + b).
Proof. unfold deg. field. Qed.
