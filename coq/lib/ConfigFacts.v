(* Theorems about the Config model (C20). *)
From PyrollLib Require Import Config.
From Coq Require Import Lia.
Open Scope Z_scope.

(* ---------- strings ---------- *)
Section Strip.
Variable p : ascii -> bool.
Definition headok_by (t : str) : Prop := match t with [] => True | a :: _ => p a = false end.
Definition trimmed_by (t : str) : Prop := headok_by t /\ headok_by (rev t).
Definition allws_by (w : str) : Prop := Forall (fun c => p c = true) w.

Lemma lstrip_ws_app w t : allws_by w -> lstrip_by p (w ++ t) = lstrip_by p t.
Proof. induction 1 as [|c w Hc Hw IH]; cbn; [reflexivity|]. rewrite Hc. exact IH. Qed.

Lemma lstrip_headok t : headok_by t -> lstrip_by p t = t.
Proof. destruct t as [|a m]; cbn; intro H; [reflexivity|]. rewrite H. reflexivity. Qed.

Lemma lstrip_allws w : allws_by w -> lstrip_by p w = [].
Proof. intro H. rewrite <- (app_nil_r w). rewrite lstrip_ws_app by assumption. reflexivity. Qed.

Lemma allws_rev w : allws_by w -> allws_by (rev w).
Proof. unfold allws_by. intro H. apply Forall_rev. exact H. Qed.

Lemma strip_pad w1 t w2 : allws_by w1 -> allws_by w2 -> trimmed_by t -> strip_by p (w1 ++ t ++ w2) = t.
Proof.
  intros H1 H2 [Hh Hr]. unfold strip_by. rewrite lstrip_ws_app by assumption.
  destruct t as [|a m].
  - cbn [app]. rewrite (lstrip_allws w2) by assumption. reflexivity.
  - assert (E : lstrip_by p ((a :: m) ++ w2) = (a :: m) ++ w2).
    { cbn in *. rewrite Hh. reflexivity. }
    rewrite E, rev_app_distr, lstrip_ws_app by (apply allws_rev; assumption).
    rewrite lstrip_headok by assumption. apply rev_involutive.
Qed.

Lemma strip_trimmed t : trimmed_by t -> strip_by p t = t.
Proof.
  intro H. pose proof (strip_pad [] t [] (Forall_nil _) (Forall_nil _) H) as E.
  cbn [app] in E. rewrite app_nil_r in E. exact E.
Qed.
End Strip.
Notation headok := (headok_by is_ws).
Notation trimmed := (trimmed_by is_ws).
Notation allws := (allws_by is_ws).

Lemma is_ws_lower c : is_ws (lower_c c) = is_ws c.
Proof.
  unfold lower_c. destruct (Nat.leb 65 (nat_of_ascii c) && Nat.leb (nat_of_ascii c) 90)%bool eqn:E; [|reflexivity].
  apply andb_prop in E. destruct E as [E1 E2]. apply Nat.leb_le in E1, E2.
  unfold is_ws. rewrite nat_ascii_embedding by lia.
  repeat match goal with |- context [Nat.eqb ?a ?b] => destruct (Nat.eqb_spec a b); try lia end;
  repeat match goal with |- context [Nat.leb ?a ?b] => destruct (Nat.leb_spec a b); try lia end; reflexivity.
Qed.

Lemma allws_lower w : allws w -> allws (lower w).
Proof. unfold allws, lower. intro H. apply Forall_map. eapply Forall_impl; [|exact H]. intros c Hc. cbn. rewrite is_ws_lower. exact Hc. Qed.

Lemma lower_app a b : lower (a ++ b) = lower a ++ lower b.
Proof. apply map_app. Qed.

Lemma str_eqb_refl s : str_eqb s s = true.
Proof. unfold str_eqb. destruct (list_eq_dec ascii_dec s s); congruence. Qed.
Lemma str_eqb_eq a b : str_eqb a b = true <-> a = b.
Proof. unfold str_eqb. destruct (list_eq_dec ascii_dec a b); split; congruence. Qed.

(* booleans: any letter case, any surrounding blanks *)
Theorem parse_bool_roundtrip (b : bool) (s w1 w2 : str) :
  lower s = s2l (if b then "true" else "false") -> allws w1 -> allws w2 ->
  parse_bool (w1 ++ s ++ w2) = Ok (VBool b).
Proof.
  intros Hs H1 H2. unfold parse_bool.
  rewrite !lower_app, Hs, strip_pad; try (apply allws_lower; assumption).
  - destruct b; reflexivity.
  - destruct b; cbv; split; reflexivity.
Qed.

Theorem parse_bool_rejects s :
  strip (lower s) <> s2l "true" -> strip (lower s) <> s2l "false" -> parse_bool s = Err ValueError.
Proof.
  intros H1 H2. unfold parse_bool.
  destruct (str_eqb (strip (lower s)) (s2l "true")) eqn:E1; [apply str_eqb_eq in E1; contradiction|].
  destruct (str_eqb (strip (lower s)) (s2l "false")) eqn:E2; [apply str_eqb_eq in E2; contradiction|].
  reflexivity.
Qed.

(* ---------- integers: every decimal numeral (underscores allowed between digits are covered by the
   X-tie; the theorem is for plain digit strings) parses to its positional value ---------- *)
Definition dchar (d : nat) : ascii := ascii_of_nat (48 + d).
Definition numeral (ds : list nat) : str := map dchar ds.
Definition value_from (acc : Z) (ds : list nat) : Z := fold_left (fun a d => a * 10 + Z.of_nat d) ds acc.

Lemma digit_dchar d : (d < 10)%nat -> digit (dchar d) = Some (Z.of_nat d).
Proof.
  intro H. unfold digit, dchar. rewrite nat_ascii_embedding by lia.
  replace (Nat.leb 48 (48 + d)) with true by (symmetry; apply Nat.leb_le; lia).
  replace (Nat.leb (48 + d) 57) with true by (symmetry; apply Nat.leb_le; lia).
  cbn [andb]. f_equal. f_equal. lia.
Qed.

Lemma pdigits_numeral ds : Forall (fun d => (d < 10)%nat) ds ->
  forall acc, pdigits acc (numeral ds) = Some (value_from acc ds).
Proof.
  induction 1 as [|d ds Hd Hds IH]; intro acc; cbn [numeral map pdigits]; [reflexivity|].
  rewrite digit_dchar by assumption. apply IH.
Qed.

Lemma is_ws_dchar d : (d < 10)%nat -> is_wsi (dchar d) = false.
Proof.
  intro H. unfold is_wsi, dchar. rewrite nat_ascii_embedding by lia.
  repeat match goal with |- context [Nat.eqb ?a ?b] => destruct (Nat.eqb_spec a b); try lia end;
  repeat match goal with |- context [Nat.leb ?a ?b] => destruct (Nat.leb_spec a b); try lia end; reflexivity.
Qed.

Lemma headok_numeral ds : Forall (fun d => (d < 10)%nat) ds -> headok_by is_wsi (numeral ds).
Proof. destruct 1; cbn; [exact I | apply is_ws_dchar; assumption]. Qed.

Lemma trimmed_numeral ds : Forall (fun d => (d < 10)%nat) ds -> trimmed_by is_wsi (numeral ds).
Proof.
  intro H. split; [apply headok_numeral; assumption|].
  unfold numeral. rewrite <- map_rev. apply headok_numeral. apply Forall_rev. assumption.
Qed.

Inductive sign := Plus | Minus | NoSign.
Definition sign_str (s : sign) : str := match s with Plus => ["+"%char] | Minus => ["-"%char] | NoSign => [] end.
Definition sign_apply (s : sign) (z : Z) : Z := match s with Minus => - z | _ => z end.

Lemma pnum_numeral d ds : Forall (fun d => (d < 10)%nat) (d :: ds) ->
  pnum (numeral (d :: ds)) = Some (value_from 0 (d :: ds)).
Proof.
  intro H. inversion H as [|? ? Hd Hds]; subst. unfold pnum. cbn [numeral map].
  rewrite digit_dchar by assumption. rewrite pdigits_numeral by assumption.
  unfold value_from. cbn [fold_left]. rewrite Z.mul_0_l, Z.add_0_l. reflexivity.
Qed.

Theorem py_int_numeral (sg : sign) (d : nat) (ds : list nat) (w1 w2 : str) :
  Forall (fun d => (d < 10)%nat) (d :: ds) -> allws_by is_wsi w1 -> allws_by is_wsi w2 ->
  py_int (w1 ++ (sign_str sg ++ numeral (d :: ds)) ++ w2) = Some (sign_apply sg (value_from 0 (d :: ds))).
Proof.
  intros Hd H1 H2. unfold py_int.
  assert (Hn := trimmed_numeral _ Hd). destruct Hn as [Hh Hr].
  assert (Hd0 : (d < 10)%nat) by (inversion Hd; assumption).
  rewrite strip_pad; try assumption.
  - destruct sg; cbn [sign_str app].
    + change (Nat.eqb (nat_of_ascii "+") 45) with false. change (Nat.eqb (nat_of_ascii "+") 43) with true.
      cbv iota. rewrite pnum_numeral by assumption. reflexivity.
    + change (Nat.eqb (nat_of_ascii "-") 45) with true. cbv iota.
      rewrite pnum_numeral by assumption. reflexivity.
    + cbn [numeral map].
      assert (E1 : Nat.eqb (nat_of_ascii (dchar d)) 45 = false).
      { unfold dchar. rewrite nat_ascii_embedding by lia. apply Nat.eqb_neq. lia. }
      assert (E2 : Nat.eqb (nat_of_ascii (dchar d)) 43 = false).
      { unfold dchar. rewrite nat_ascii_embedding by lia. apply Nat.eqb_neq. lia. }
      rewrite E1, E2. change (dchar d :: map dchar ds) with (numeral (d :: ds)).
      rewrite pnum_numeral by assumption. reflexivity.
  - split.
    + destruct sg; cbn [sign_str app headok_by]; try reflexivity. cbn [numeral map]. apply is_ws_dchar. assumption.
    + rewrite rev_app_distr.
      destruct (rev (numeral (d :: ds))) as [|b m] eqn:E.
      * apply (f_equal (@length _)) in E. rewrite rev_length in E. cbn in E. discriminate.
      * cbn [app headok_by]. exact Hr.
Qed.

(* ---------- comma separated lists ---------- *)
Definition free_of (c : ascii) (s : str) : Prop := Forall (fun x => Ascii.eqb x c = false) s.

Lemma split_on_free c s : free_of c s -> split_on c s = [s].
Proof. induction 1 as [|x s Hx Hs IH]; cbn; [reflexivity|]. rewrite Hx, IH. reflexivity. Qed.

Lemma split_on_app c a b : free_of c a ->
  split_on c (a ++ c :: b) = a :: split_on c b.
Proof.
  induction 1 as [|x a Hx Ha IH]; cbn.
  - rewrite Ascii.eqb_refl. reflexivity.
  - rewrite Hx, IH. reflexivity.
Qed.

Lemma split_join c (l : list str) : l <> [] -> Forall (free_of c) l -> split_on c (join c l) = l.
Proof.
  intros Hne H. induction H as [|x l Hx Hl IH]; [congruence|].
  destruct l as [|y l'].
  - cbn. apply split_on_free. assumption.
  - change (join c (x :: y :: l')) with (x ++ c :: join c (y :: l')).
    rewrite split_on_app by assumption. f_equal. apply IH. congruence.
Qed.

Lemma blank_join (l : list str) : l <> [] -> l <> [[]] -> Forall trimmed l -> blank (join ","%char l) = false.
Proof.
  intros H0 H1 Ht. unfold blank. destruct l as [|x [|y r]]; [congruence| |].
  - cbn [join]. destruct x as [|a x]; [exfalso; apply H1; reflexivity|]. inversion Ht as [|? ? [Hh _] _]; subst. cbn in Hh. cbn [forallb]. rewrite Hh. reflexivity.
  - change (join ","%char (x :: y :: r)) with (x ++ ","%char :: join ","%char (y :: r)).
    rewrite forallb_app. cbn [forallb]. replace (is_ws ","%char) with false by reflexivity. cbn [andb]. apply andb_false_r.
Qed.

(* the empty list included; the one list that has no text form of its own is [""] (its text is the empty text, which is the empty list) *)
Theorem list_roundtrip (l : list str) :
  l <> [[]] -> Forall (free_of ","%char) l -> Forall trimmed l ->
  items (join ","%char l) = l.
Proof.
  intros Hne1 Hf Ht. unfold items. destruct l as [|x0 l0] eqn:El; [reflexivity|]. rewrite <- El in *.
  assert (Hne : l <> []) by (rewrite El; discriminate).
  rewrite blank_join by assumption. rewrite split_join by assumption. clear El Hne1.
  induction Ht as [|x l Hx Hl IH]; cbn; [reflexivity|]. rewrite strip_trimmed by assumption. f_equal.
  destruct l; [reflexivity|]. apply IH; [inversion Hf; assumption | congruence].
Qed.

Theorem list_and_tuple_parse d (l : list str) :
  l <> [[]] -> Forall (free_of ","%char) l -> Forall trimmed l ->
  classify d TList = KIterable -> classify d TTuple = KIterable ->
  parse d TList (join ","%char l) = Ok (VList l) /\ parse d TTuple (join ","%char l) = Ok (VTuple l).
Proof.
  intros Hne Hf Ht C1 C2. unfold parse. rewrite C1, C2. cbn [branch]. rewrite list_roundtrip by assumption. split; reflexivity.
Qed.

(* ---------- key=value mappings ---------- *)
Definition kv_text (kv : str * str) : str := fst kv ++ "="%char :: snd kv.
Definition clean (s : str) : Prop := free_of ","%char s /\ free_of "="%char s /\ trimmed s.

Lemma free_of_app c a b : free_of c a -> free_of c b -> free_of c (a ++ b).
Proof. unfold free_of. intros. apply Forall_app. split; assumption. Qed.

Lemma trimmed_kv k v : k <> [] -> v <> [] -> trimmed k -> trimmed v -> trimmed (kv_text (k, v)).
Proof.
  intros Hk Hv [Hk1 Hk2] [Hv1 Hv2]. unfold kv_text, trimmed. cbn [fst snd]. split.
  - destruct k; [congruence|]. exact Hk1.
  - rewrite rev_app_distr. cbn [rev]. rewrite <- app_assoc.
    destruct (rev v) as [|b m] eqn:E.
    + apply (f_equal (@rev _)) in E. rewrite rev_involutive in E. cbn in E. congruence.
    + exact Hv2.
Qed.

Fixpoint dict_build (kvs : list (str * str)) (acc : list (str * str)) : list (str * str) :=
  match kvs with [] => acc | (k, v) :: r => dict_build r (dict_set acc k v) end.

Theorem dict_roundtrip (kvs : list (str * str)) :
  Forall (fun kv => clean (fst kv) /\ clean (snd kv) /\ fst kv <> [] /\ snd kv <> []) kvs ->
  parse_dict (join ","%char (map kv_text kvs)) = Ok (VDict (dict_build kvs [])).
Proof.
  intros H. unfold parse_dict. destruct kvs as [|kv0 kvs0] eqn:Ek; [reflexivity|]. rewrite <- Ek in *.
  assert (Hne : kvs <> []) by (rewrite Ek; discriminate).
  assert (Tr : Forall trimmed (map kv_text kvs)).
  { apply Forall_map. eapply Forall_impl; [|exact H]. intros [k v] [[_ [_ T1]] [[_ [_ T2]] [N1 N2]]]. cbn [fst snd] in *. apply trimmed_kv; assumption. }
  rewrite blank_join; [| rewrite Ek; discriminate | | exact Tr].
  2:{ rewrite Ek. cbn [map]. intro X. inversion X as [[X1 X2]]. unfold kv_text in X1. destruct (fst kv0); discriminate. }
  rewrite split_join.
  2:{ rewrite Ek; discriminate. }
  2:{ apply Forall_map. eapply Forall_impl; [|exact H]. intros [k v] [[C1 _] [[C2 _] _]]. unfold kv_text. cbn [fst snd] in *.
      apply free_of_app; [assumption|]. constructor; [reflexivity | assumption]. }
  rewrite map_map.
  assert (G : forall acc, dict_of (map (fun x => map strip (split_on "="%char (strip (kv_text x)))) kvs) acc
                           = Some (dict_build kvs acc)).
  { clear Hne Ek Tr. induction H as [|[k v] kvs Hkv Hr IH]; intro acc; cbn [map dict_of dict_build]; [reflexivity|].
    destruct Hkv as [[Ck1 [Ck2 Ck3]] [[Cv1 [Cv2 Cv3]] [Nk Nv]]]. cbn [fst snd] in *.
    rewrite strip_trimmed by (apply trimmed_kv; assumption).
    unfold kv_text. cbn [fst snd]. rewrite split_on_app by assumption. rewrite split_on_free by assumption.
    cbn [map]. rewrite !strip_trimmed by assumption. apply IH. }
  rewrite G. reflexivity.
Qed.

(* ---------- the store: lookups after each operation ---------- *)
Lemma lookup_remove_same {A} (l : list (str * A)) n : lookup (remove_key l n) n = None.
Proof. induction l as [|[k v] l IH]; cbn; [reflexivity|]. destruct (str_eqb k n) eqn:E; [exact IH|]. cbn. rewrite E. exact IH. Qed.

Lemma lookup_remove_other {A} (l : list (str * A)) n m : str_eqb n m = false -> lookup (remove_key l n) m = lookup l m.
Proof.
  intro H. induction l as [|[k v] l IH]; cbn; [reflexivity|].
  destruct (str_eqb k n) eqn:E.
  - apply str_eqb_eq in E. subst k. rewrite H. exact IH.
  - cbn. rewrite IH. reflexivity.
Qed.

Lemma lookup_set_explicit st n v m :
  lookup (explicit (set_explicit st n v)) m = if str_eqb n m then Some v else lookup (explicit st) m.
Proof. cbn. destruct (str_eqb n m) eqn:E; [reflexivity|]. apply lookup_remove_other. exact E. Qed.

(* effect of an update list on the explicit value of name m: the last binding of m wins *)
Fixpoint upd_effect (l : list (str * val)) (m : str) (cur : option val) : option val :=
  match l with [] => cur | (n, v) :: r => upd_effect r m (if str_eqb n m then Some v else cur) end.

Lemma known_set_explicit st n v : known (set_explicit st n v) = known st.
Proof. reflexivity. Qed.

Lemma apply_update_all_known raises st l : all_known st l = true ->
  snd (apply_update raises st l) = ODone /\
  known (fst (apply_update raises st l)) = known st /\ envm (fst (apply_update raises st l)) = envm st /\
  forall m, lookup (explicit (fst (apply_update raises st l))) m = upd_effect l m (lookup (explicit st) m).
Proof.
  revert st. induction l as [|[n v] l IH]; intros st H; cbn.
  - repeat split; reflexivity.
  - cbn in H. apply andb_prop in H. destruct H as [H1 H2].
    destruct (lookup (known st) n) eqn:E; [|discriminate].
    specialize (IH (set_explicit st n v)).
    assert (H2' : all_known (set_explicit st n v) l = true) by exact H2.
    destruct (IH H2') as [I1 [I2 [I3 I4]]]. repeat split; try assumption.
    intro m. rewrite I4. rewrite lookup_set_explicit. reflexivity.
Qed.

(* the effect of one operation on the explicit value stored for name m *)
Definition explicit_effect (st : state) (o : op) (m : str) (cur : option val) : option val :=
  match o with
  | Set_ n v => if str_eqb n m then Some v else cur
  | Del n => if str_eqb n m then None else cur
  | Update l => if all_known st l then upd_effect l m cur else cur
  | _ => cur
  end.

Theorem step_explicit st o m :
  lookup (explicit (fst (step std_params st o))) m = explicit_effect st o m (lookup (explicit st) m).
Proof.
  destruct o as [n|n v|n|n s|n|l]; cbn -[set_explicit apply_update all_known].
  - destruct (lookup (known st) n); reflexivity.
  - apply lookup_set_explicit.
  - destruct (lookup (explicit st) n) eqn:E; cbn.
    + destruct (str_eqb n m) eqn:F; [apply str_eqb_eq in F; subst; apply lookup_remove_same | apply lookup_remove_other; assumption].
    + destruct (str_eqb n m) eqn:F; [apply str_eqb_eq in F; subst; assumption | reflexivity].
  - reflexivity.
  - reflexivity.
  - destruct (all_known st l) eqn:E; cbn [negb andb].
    + apply apply_update_all_known. assumption.
    + reflexivity.
Qed.

Theorem step_known_env st o :
  known (fst (step std_params st o)) = known st /\
  (forall m, lookup (envm (fst (step std_params st o))) m =
     match o with
     | SetEnv n s => if str_eqb n m then Some s else lookup (envm st) m
     | UnsetEnv n => if str_eqb n m then None else lookup (envm st) m
     | _ => lookup (envm st) m end).
Proof.
  destruct o as [n|n v|n|n s|n|l]; cbn -[set_explicit apply_update all_known].
  - destruct (lookup (known st) n); split; reflexivity.
  - split; reflexivity.
  - destruct (lookup (explicit st) n); split; reflexivity.
  - split; [reflexivity|]. intro m. destruct (str_eqb n m) eqn:F; [reflexivity | apply lookup_remove_other; assumption].
  - split; [reflexivity|]. intro m.
    destruct (str_eqb n m) eqn:F; [apply str_eqb_eq in F; subst; apply lookup_remove_same | apply lookup_remove_other; assumption].
  - destruct (all_known st l) eqn:E; cbn [negb andb].
    + destruct (apply_update_all_known true st l E) as [_ [K [V _]]]. split; [assumption|]. intro m. rewrite V. reflexivity.
    + split; reflexivity.
Qed.

(* precedence: what a read returns, as a function of the three sources *)
Definition resolve_spec (d : list kind) (c : cfgval) (ex : option val) (en : option str) : res :=
  match ex with
  | Some VNone | None => match en with Some s => parse d (cv_ty c) s | None => Ok (cv_default c) end
  | Some v => Ok v
  end.

Theorem get_precedence st n c :
  lookup (known st) n = Some c ->
  snd (step std_params st (Get n)) =
    OVal (resolve_spec (p_dispatch std_params) c (lookup (explicit st) n) (lookup (envm st) n)).
Proof.
  intro H. cbn -[parse]. rewrite H. cbn -[parse]. unfold resolve_spec.
  destruct (lookup (explicit st) n) as [[]|]; try reflexivity;
  destruct (lookup (envm st) n); reflexivity.
Qed.

(* histories: the explicit value of m after any history is the fold of the per-operation effects *)
Fixpoint explicit_after (st : state) (ops : list op) (m : str) : option val :=
  match ops with
  | [] => lookup (explicit st) m
  | o :: r => explicit_after (fst (step std_params st o)) r m
  end.

Lemma run_fst st ops : forall m,
  lookup (explicit (fst (run std_params st ops))) m = explicit_after st ops m.
Proof.
  revert st. induction ops as [|o r IH]; intros st m; [reflexivity|].
  cbn [run explicit_after]. destruct (step std_params st o) as [st1 x] eqn:E.
  specialize (IH st1 m). destruct (run std_params st1 r) as [st2 xs] eqn:F. cbn [fst] in *. exact IH.
Qed.

Definition mentions (o : op) (m : str) : bool :=
  match o with
  | Set_ n _ | Del n => str_eqb n m
  | Update l => existsb (fun nv => str_eqb (fst nv) m) l
  | _ => false
  end.

Lemma upd_effect_unmentioned l m cur : existsb (fun nv => str_eqb (fst nv) m) l = false -> upd_effect l m cur = cur.
Proof.
  revert cur. induction l as [|[n v] l IH]; intros cur H; cbn in *; [reflexivity|].
  apply orb_false_elim in H. destruct H as [H1 H2]. rewrite H1. apply IH. assumption.
Qed.

(* frame: operations that do not name m never change what is stored for m *)
Theorem explicit_frame ops : forall st m,
  forallb (fun o => negb (mentions o m)) ops = true ->
  lookup (explicit (fst (run std_params st ops))) m = lookup (explicit st) m.
Proof.
  induction ops as [|o r IH]; intros st m H; [reflexivity|].
  cbn in H. apply andb_prop in H. destruct H as [H1 H2]. apply negb_true_iff in H1.
  rewrite run_fst. cbn [explicit_after]. rewrite <- run_fst. rewrite IH by assumption.
  rewrite step_explicit. destruct o as [n|n v|n|n s|n|l]; cbn in *; try reflexivity.
  - rewrite H1. reflexivity.
  - rewrite H1. reflexivity.
  - destruct (all_known st l); [apply upd_effect_unmentioned; assumption | reflexivity].
Qed.

Theorem delete_restores st n c :
  lookup (known st) n = Some c -> lookup (explicit st) n <> None ->
  let st' := fst (step std_params st (Del n)) in
  snd (step std_params st (Del n)) = ODone /\
  snd (step std_params st' (Get n)) =
    OVal (match lookup (envm st) n with Some s => parse (p_dispatch std_params) (cv_ty c) s | None => Ok (cv_default c) end).
Proof.
  intros K E st'. split.
  - cbn. destruct (lookup (explicit st) n); [reflexivity | congruence].
  - assert (K' : lookup (known st') n = Some c).
    { unfold st'. rewrite (proj1 (step_known_env st (Del n))). assumption. }
    rewrite (get_precedence st' n c K'). unfold st'. rewrite step_explicit.
    rewrite (proj2 (step_known_env st (Del n))). cbn [explicit_effect]. rewrite str_eqb_refl. reflexivity.
Qed.

Theorem falsy_honoured st n c v :
  lookup (known st) n = Some c -> v = VInt 0 \/ v = VBool false \/ v = VStr [] \/ v = VList [] ->
  snd (step std_params (fst (step std_params st (Set_ n v))) (Get n)) = OVal (Ok v).
Proof.
  intros K Hv. rewrite (get_precedence _ n c) by exact K.
  rewrite step_explicit. cbn [explicit_effect]. rewrite str_eqb_refl.
  destruct Hv as [ E | [ E | [ E | E ] ] ]; subst v; reflexivity.
Qed.

Theorem update_exact st l :
  (all_known st l = true ->
     snd (step std_params st (Update l)) = ODone /\
     forall m, lookup (explicit (fst (step std_params st (Update l)))) m = upd_effect l m (lookup (explicit st) m)) /\
  (all_known st l = false ->
     step std_params st (Update l) = (st, ORaise AttributeError)).
Proof.
  split; intro H; cbn -[apply_update all_known]; rewrite H; cbn [negb andb].
  - destruct (apply_update_all_known true st l H) as [A [_ [_ B]]]. split; assumption.
  - reflexivity.
Qed.

(* dispatch: with the tests in the order found in the source, every supported default type is
   handled by its own branch (in particular str and Path before Iterable, Mapping before Iterable) *)
Definition natural_kind (t : ty) : kind :=
  match t with
  | TBool => KBool | TInt | TFloat => KFallback | TStr => KStr | TPath => KPath
  | TEnum _ => KEnum | TDict => KMapping | TList | TTuple => KIterable
  end.

(* two parameter sets that agree on source order, update mode and on which branch handles every
   type give the same transition function *)
Lemma get_from_ext d d' order st n c :
  (forall t, classify d t = classify d' t) -> get_from d order st n c = get_from d' order st n c.
Proof.
  intro H. induction order as [|s r IH]; [reflexivity|]. destruct s; cbn.
  - destruct (lookup (explicit st) n) as [[]|]; try reflexivity; exact IH.
  - destruct (lookup (envm st) n); [|exact IH]. unfold parse. rewrite H. reflexivity.
  - reflexivity.
Qed.

Theorem step_params_ext p q :
  p_order p = p_order q -> p_update_raises p = p_update_raises q ->
  p_update_validates_first p = p_update_validates_first q ->
  (forall t, classify (p_dispatch p) t = classify (p_dispatch q) t) ->
  forall st o, step p st o = step q st o.
Proof.
  intros H1 H2 H3 H4 st o. destruct o; cbn -[apply_update all_known]; try reflexivity.
  - destruct (lookup (known st) n); [|reflexivity]. rewrite H1. rewrite (get_from_ext _ _ _ _ _ _ H4). reflexivity.
  - rewrite H2, H3. reflexivity.
Qed.

Theorem std_dispatch_natural t : classify (p_dispatch std_params) t = natural_kind t.
Proof. destruct t; reflexivity. Qed.

(* comparison of outputs, used by the correspondence cases *)
Fixpoint list_eqb {A} (e : A -> A -> bool) (a b : list A) : bool :=
  match a, b with [], [] => true | x :: r, y :: s => (e x y && list_eqb e r s)%bool | _, _ => false end.
Definition val_eqb (a b : val) : bool :=
  match a, b with
  | VNone, VNone => true
  | VBool x, VBool y => Bool.eqb x y
  | VInt x, VInt y | VTok x, VTok y => Z.eqb x y
  | VStr x, VStr y | VPath x, VPath y | VEnum x, VEnum y | VFloatOf x, VFloatOf y => str_eqb x y
  | VList x, VList y | VTuple x, VTuple y => list_eqb str_eqb x y
  | VDict x, VDict y => list_eqb (fun p q => (str_eqb (fst p) (fst q) && str_eqb (snd p) (snd q))%bool) x y
  | _, _ => false
  end.
Definition errk_eqb (a b : errk) : bool :=
  match a, b with
  | ValueError, ValueError | KeyError, KeyError | AttributeError, AttributeError | TypeError, TypeError => true
  | _, _ => false end.
Definition out_eqb (a b : out) : bool :=
  match a, b with
  | ODone, ODone => true
  | ORaise x, ORaise y => errk_eqb x y
  | OVal (Ok x), OVal (Ok y) => val_eqb x y
  | OVal (Err x), OVal (Err y) => errk_eqb x y
  | _, _ => false
  end.
Fixpoint mismatches (p : params) (st : state) (cases : list (list op * list out)) (i : nat) : list nat :=
  match cases with
  | [] => []
  | (ops, expected) :: r =>
      let rest := mismatches p st r (S i) in
      if list_eqb out_eqb (snd (run p st ops)) expected then rest else i :: rest
  end.
Definition mk (l : list nat) : str := map ascii_of_nat l.

Lemma enum_by_number m s name z : py_int s = Some z -> by_value m z = Some name -> parse_enum m s = Ok (VEnum name).
Proof. intros H1 H2. unfold parse_enum, parse_enum_with. rewrite H1, H2. reflexivity. Qed.
Lemma enum_by_name m s name : py_int s = None -> by_name m s = None -> by_name m (upper s) = Some name -> parse_enum m s = Ok (VEnum name).
Proof. intros H1 H0 H2. unfold parse_enum, parse_enum_with. rewrite H1. cbn [enum_lookup by_names spell]. rewrite H0, H2. reflexivity. Qed.
Lemma enum_rejects m s z :
  (py_int s = None \/ by_value m z = None /\ py_int s = Some z) -> by_name m s = None -> by_name m (upper s) = None ->
  parse_enum m s = Err KeyError.
Proof.
  intros [H1|[H0 H1]] H3 H2; unfold parse_enum, parse_enum_with; rewrite H1, ?H0; cbn [enum_lookup by_names spell]; rewrite H3, H2; reflexivity.
Qed.

(* a member is found by its own name, whatever its letter case, for every list of spellings that tries the name itself first *)
Lemma by_name_member (m : list (str * Z)) (n : str) : In n (map fst m) -> by_name m n = Some n.
Proof.
  induction m as [|[k v] r IH]; cbn [map fst In by_name]; intros H; [contradiction|].
  destruct (str_eqb k n) eqn:E; [apply str_eqb_eq in E; rewrite E; reflexivity|].
  destruct H as [H|H]; [subst k; rewrite str_eqb_refl in E; discriminate | apply IH; exact H].
Qed.
Lemma by_name_sound (m : list (str * Z)) (s n : str) : by_name m s = Some n -> n = s /\ In n (map fst m).
Proof.
  induction m as [|[k v] r IH]; cbn [map fst In by_name]; intros H; [discriminate|].
  destruct (str_eqb k s) eqn:E.
  - apply str_eqb_eq in E. inversion H; subst. split; [reflexivity | left; reflexivity].
  - destruct (IH H) as [A B]. split; [exact A | right; exact B].
Qed.
Theorem enum_member_by_own_name (l : list nametr) (m : list (str * Z)) (n : str) :
  In n (map fst m) -> py_int n = None -> parse_enum_with (NExact :: l) m n = Ok (VEnum n).
Proof.
  intros H1 H2. unfold parse_enum_with. rewrite H2. cbn [by_names spell]. rewrite (by_name_member m n H1). reflexivity.
Qed.
(* what parses by name is a member; a text that is neither a member's number nor (exactly or upper-cased) a member's name is rejected *)
Theorem enum_parse_sound (m : list (str * Z)) (s n : str) :
  py_int s = None -> parse_enum m s = Ok (VEnum n) -> In n (map fst m) /\ (n = s \/ n = upper s).
Proof.
  intros H1. unfold parse_enum, parse_enum_with. rewrite H1. cbn [enum_lookup by_names spell].
  destruct (by_name m s) as [a|] eqn:E1.
  - intros H; inversion H; subst. destruct (by_name_sound _ _ _ E1) as [A B]. split; [exact B | left; exact A].
  - destruct (by_name m (upper s)) as [a|] eqn:E2; [|discriminate].
    intros H; inversion H; subst. destruct (by_name_sound _ _ _ E2) as [A B]. split; [exact B | right; exact A].
Qed.
(* the pinned lookup (upper-cased spelling only) could not find a member whose name is not upper case: repaired defect *)
Definition lowname : str := s2l "low".
Lemma enum_member_pinned_refuted :
  exists m n, In n (map fst m) /\ py_int n = None /\ parse_enum_with [NUpper] m n = Err KeyError.
Proof. exists [(lowname, 7)], lowname. split; [left; reflexivity|]. split; vm_compute; reflexivity. Qed.
