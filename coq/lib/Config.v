(* Model of pyroll/core/config.py: ConfigValue.__get__/__set__/__delete__/parse and
   ConfigMeta.update.  Executable (vm_compute) - run against the implementation by the X-tie of C20.
   Strings are lists of ascii; only ASCII text is generated. No proofs here. *)
From Coq Require Export String Ascii List ZArith Bool.
Export ListNotations.
Open Scope Z_scope.

Definition str := list ascii.
Definition s2l (s : string) : str := list_ascii_of_string s.

(* ---- Python str primitives (ASCII) ------------------------------------------------------ *)
Definition is_ws (c : ascii) : bool :=         (* str.isspace on ASCII: what str.strip() removes *)
  let n := nat_of_ascii c in
  (Nat.eqb n 32 || (Nat.leb 9 n && Nat.leb n 13) || (Nat.leb 28 n && Nat.leb n 31))%bool.
Definition is_wsi (c : ascii) : bool :=        (* Py_ISSPACE: what int() skips *)
  let n := nat_of_ascii c in (Nat.eqb n 32 || (Nat.leb 9 n && Nat.leb n 13))%bool.

Fixpoint lstrip_by (p : ascii -> bool) (s : str) : str :=
  match s with c :: r => if p c then lstrip_by p r else s | [] => [] end.
Definition strip_by (p : ascii -> bool) (s : str) : str := rev (lstrip_by p (rev (lstrip_by p s))).
Notation lstrip := (lstrip_by is_ws).
Notation strip := (strip_by is_ws).

Definition lower_c (c : ascii) : ascii :=
  let n := nat_of_ascii c in if (Nat.leb 65 n && Nat.leb n 90)%bool then ascii_of_nat (n + 32) else c.
Definition upper_c (c : ascii) : ascii :=
  let n := nat_of_ascii c in if (Nat.leb 97 n && Nat.leb n 122)%bool then ascii_of_nat (n - 32) else c.
Definition lower (s : str) : str := map lower_c s.
Definition upper (s : str) : str := map upper_c s.

Fixpoint split_on (c : ascii) (s : str) : list str :=
  match s with
  | [] => [[]]
  | x :: r => if Ascii.eqb x c then [] :: split_on c r
              else match split_on c r with h :: t => (x :: h) :: t | [] => [[x]] end
  end.

Fixpoint join (c : ascii) (l : list str) : str :=
  match l with [] => [] | [x] => x | x :: r => x ++ c :: join c r end.

Definition str_eqb (a b : str) : bool := if list_eq_dec ascii_dec a b then true else false.

(* ---- Python int() on ASCII text --------------------------------------------------------- *)
Definition digit (c : ascii) : option Z :=
  let n := nat_of_ascii c in
  if (Nat.leb 48 n && Nat.leb n 57)%bool then Some (Z.of_nat (n - 48)) else None.
Definition is_us (c : ascii) : bool := Nat.eqb (nat_of_ascii c) 95.

Fixpoint pdigits (acc : Z) (s : str) : option Z :=
  match s with
  | [] => Some acc
  | c :: r =>
      match digit c with
      | Some d => pdigits (acc * 10 + d) r
      | None =>
          if is_us c then
            match r with
            | c2 :: r2 => match digit c2 with Some d => pdigits (acc * 10 + d) r2 | None => None end
            | [] => None
            end
          else None
      end
  end.
Definition pnum (s : str) : option Z :=
  match s with c :: r => match digit c with Some d => pdigits d r | None => None end | [] => None end.
Definition py_int (s : str) : option Z :=
  match strip_by is_wsi s with
  | c :: r => if Nat.eqb (nat_of_ascii c) 45 then option_map Z.opp (pnum r)
              else if Nat.eqb (nat_of_ascii c) 43 then pnum r else pnum (c :: r)
  | [] => None
  end.

(* ---- values, types, errors ----------------------------------------------------------------- *)
Inductive val : Type :=
| VNone | VBool (b : bool) | VInt (z : Z) | VStr (s : str) | VPath (s : str) | VEnum (name : str)
| VList (l : list str) | VTuple (l : list str) | VDict (d : list (str * str))
| VTok (n : Z)            (* opaque token: floats, objects - only ever assigned, never parsed *)
| VFloatOf (s : str).     (* float(s): delegated to the float oracle *)

Inductive errk : Type := ValueError | KeyError | AttributeError | TypeError.
Inductive res : Type := Ok (v : val) | Err (e : errk).

Inductive ty : Type :=
| TBool | TInt | TFloat | TStr | TPath | TEnum (members : list (str * Z)) | TDict | TList | TTuple.

(* the tests of ConfigValue.parse, in the order found in the source (fragment T-G) *)
Inductive kind : Type := KBool | KPath | KStr | KEnum | KMapping | KIterable | KFallback.

Definition kind_eqb (a b : kind) : bool :=
  match a, b with
  | KBool, KBool | KPath, KPath | KStr, KStr | KEnum, KEnum | KMapping, KMapping
  | KIterable, KIterable | KFallback, KFallback => true
  | _, _ => false
  end.

(* which tests a default's type passes (Python: `type is bool`, `issubclass(type, Iterable)`, ...) *)
Definition satisfies (t : ty) (k : kind) : bool :=
  match t, k with
  | TBool, KBool => true
  | TStr, KStr | TStr, KIterable => true
  | TPath, KPath => true
  | TEnum _, KEnum => true
  | TDict, KMapping | TDict, KIterable => true
  | TList, KIterable | TTuple, KIterable => true
  | _, _ => false
  end.

Fixpoint classify (d : list kind) (t : ty) : kind :=
  match d with [] => KFallback | k :: r => if satisfies t k then k else classify r t end.

Definition parse_bool (s : str) : res :=
  let t := strip (lower s) in
  if str_eqb t (s2l "true") then Ok (VBool true)
  else if str_eqb t (s2l "false") then Ok (VBool false) else Err ValueError.

Fixpoint by_value (m : list (str * Z)) (z : Z) : option str :=
  match m with [] => None | (n, v) :: r => if Z.eqb v z then Some n else by_value r z end.
Fixpoint by_name (m : list (str * Z)) (n : str) : option str :=
  match m with [] => None | (k, _) :: r => if str_eqb k n then Some k else by_name r n end.

(* the spellings of a name that are tried, in order (T-G regenerates this list from the source) *)
Inductive nametr : Type := NExact | NUpper | NLower.
Definition spell (t : nametr) (s : str) : str := match t with NExact => s | NUpper => upper s | NLower => lower s end.
Fixpoint by_names (m : list (str * Z)) (l : list nametr) (s : str) : option str :=
  match l with
  | [] => None
  | t :: r => match by_name m (spell t s) with Some n => Some n | None => by_names m r s end
  end.
Definition parse_enum_with (l : list nametr) (m : list (str * Z)) (s : str) : res :=
  match match py_int s with Some z => by_value m z | None => None end with
  | Some n => Ok (VEnum n)
  | None => match by_names m l s with Some n => Ok (VEnum n) | None => Err KeyError end
  end.
Definition enum_lookup : list nametr := [NExact; NUpper].       (* the member itself, else its upper-case spelling *)
Definition parse_enum := parse_enum_with enum_lookup.

Fixpoint dict_set (d : list (str * str)) (k v : str) : list (str * str) :=
  match d with
  | [] => [(k, v)]
  | (k', v') :: r => if str_eqb k' k then (k', v) :: r else (k', v') :: dict_set r k v
  end.

Fixpoint dict_of (pairs : list (list str)) (acc : list (str * str)) : option (list (str * str)) :=
  match pairs with
  | [] => Some acc
  | [k; v] :: r => dict_of r (dict_set acc k v)
  | _ :: _ => None
  end.

Definition blank (s : str) : bool := forallb is_ws s.        (* not s.strip() *)

Definition parse_dict (s : str) : res :=
  if blank s then Ok (VDict []) else      (* the text form of the empty mapping *)
  match dict_of (map (fun p => map strip (split_on "="%char (strip p))) (split_on ","%char s)) [] with
  | Some d => Ok (VDict d) | None => Err ValueError
  end.

Definition items (s : str) : list str := if blank s then [] else map strip (split_on ","%char s).      (* blank: the empty list / tuple *)

Definition branch (k : kind) (t : ty) (s : str) : res :=
  match k with
  | KBool => parse_bool s
  | KPath => Ok (VPath s)
  | KStr => Ok (VStr s)
  | KEnum => match t with TEnum m => parse_enum m s | _ => Err TypeError end
  | KMapping => parse_dict s
  | KIterable =>
      match t with
      | TList => Ok (VList (items s)) | TTuple => Ok (VTuple (items s))
      | _ => Err TypeError      (* str(generator) / dict(generator of str): not a sensible value *)
      end
  | KFallback =>
      match t with
      | TInt => match py_int s with Some z => Ok (VInt z) | None => Err ValueError end
      | TFloat => Ok (VFloatOf s)
      | TBool => Ok (VBool (negb (str_eqb s [])))        (* bool(s) *)
      | TStr => Ok (VStr s)
      | TPath => Ok (VPath s)
      | _ => Err TypeError
      end
  end.

Definition parse (d : list kind) (t : ty) (s : str) : res := branch (classify d t) t s.

(* ---- the store ----------------------------------------------------------------------------- *)
Record cfgval : Type := { cv_ty : ty; cv_default : val }.

Record state : Type := {
  known : list (str * cfgval);          (* declared config values, fixed *)
  explicit : list (str * val);          (* the "_NAME" attributes; latest binding first *)
  envm : list (str * str) }.            (* environment variables relevant to this class *)

Fixpoint lookup {A} (l : list (str * A)) (n : str) : option A :=
  match l with [] => None | (k, v) :: r => if str_eqb k n then Some v else lookup r n end.
Fixpoint remove_key {A} (l : list (str * A)) (n : str) : list (str * A) :=
  match l with [] => [] | (k, v) :: r => if str_eqb k n then remove_key r n else (k, v) :: remove_key r n end.

Inductive source : Type := SExplicit | SEnv | SDefault.

Fixpoint get_from (d : list kind) (order : list source) (st : state) (n : str) (c : cfgval) : res :=
  match order with
  | [] => Ok VNone
  | SExplicit :: r =>
      match lookup (explicit st) n with
      | Some VNone | None => get_from d r st n c
      | Some v => Ok v
      end
  | SEnv :: r => match lookup (envm st) n with Some s => parse d (cv_ty c) s | None => get_from d r st n c end
  | SDefault :: _ => Ok (cv_default c)
  end.

Inductive op : Type :=
| Get (n : str) | Set_ (n : str) (v : val) | Del (n : str)
| SetEnv (n : str) (s : str) | UnsetEnv (n : str) | Update (l : list (str * val)).

Inductive out : Type := OVal (r : res) | ODone | ORaise (e : errk).

Definition set_explicit (st : state) (n : str) (v : val) : state :=
  {| known := known st; explicit := (n, v) :: remove_key (explicit st) n; envm := envm st |}.

Record params : Type := {
  p_dispatch : list kind;        (* T-G: order of the tests in ConfigValue.parse *)
  p_order : list source;         (* T-G: order of the sources in ConfigValue.__get__ *)
  p_update_raises : bool;        (* T-G: does ConfigMeta.update raise for unknown names *)
  p_update_validates_first : bool }.

Definition all_known (st : state) (l : list (str * val)) : bool :=
  forallb (fun nv => match lookup (known st) (fst nv) with Some _ => true | None => false end) l.

Fixpoint apply_update (raises : bool) (st : state) (l : list (str * val)) : state * out :=
  match l with
  | [] => (st, ODone)
  | (n, v) :: r =>
      match lookup (known st) n with
      | Some _ => apply_update raises (set_explicit st n v) r
      | None => if raises then (st, ORaise AttributeError) else apply_update raises st r
      end
  end.

Definition step (p : params) (st : state) (o : op) : state * out :=
  match o with
  | Get n => match lookup (known st) n with
             | Some c => (st, OVal (get_from (p_dispatch p) (p_order p) st n c))
             | None => (st, ORaise AttributeError) end
  | Set_ n v => (set_explicit st n v, ODone)
  | Del n => match lookup (explicit st) n with
             | Some _ => ({| known := known st; explicit := remove_key (explicit st) n; envm := envm st |}, ODone)
             | None => (st, ORaise AttributeError) end
  | SetEnv n s => ({| known := known st; explicit := explicit st; envm := (n, s) :: remove_key (envm st) n |}, ODone)
  | UnsetEnv n => ({| known := known st; explicit := explicit st; envm := remove_key (envm st) n |}, ODone)
  | Update l =>
      if (p_update_raises p && p_update_validates_first p && negb (all_known st l))%bool
      then (st, ORaise AttributeError)
      else apply_update (p_update_raises p) st l
  end.

Fixpoint run (p : params) (st : state) (ops : list op) : state * list out :=
  match ops with
  | [] => (st, [])
  | o :: r => let '(st1, x) := step p st o in let '(st2, xs) := run p st1 r in (st2, x :: xs)
  end.

Definition std_params : params :=
  {| p_dispatch := [KBool; KPath; KStr; KEnum; KMapping; KIterable];
     p_order := [SExplicit; SEnv; SDefault]; p_update_raises := true; p_update_validates_first := true |}.
