(* Model of the unit tree: Unit._SubUnitsList (pyroll/core/unit/unit.py) and the list-editing
   methods of PassSequence (pyroll/core/sequence/sequence.py).  Executable; no proofs here.
   Every operation is expressed as what the code does: compute the new list, clear the parent of
   some units (detach), set the parent of some units (attach). *)
From Coq Require Export List ZArith Bool Arith.
Export ListNotations.

Definition uid := nat.
Inductive kind : Type := KSeq | KPass | KTransport | KOther.
Inductive err : Type := IndexError | ValueError | TypeError | KeyError.

Record st : Type := {
  kids : list (uid * list uid);        (* unit._subunits (every unit has one; sequences use it) *)
  par : list (uid * uid);              (* unit.parent; absent = None *)
  kinds : list (uid * kind);
  labels : list (uid * nat) }.

Fixpoint alookup {V} (l : list (uid * V)) (k : uid) : option V :=
  match l with [] => None | (k', v) :: r => if Nat.eqb k' k then Some v else alookup r k end.
Fixpoint aset {V} (l : list (uid * V)) (k : uid) (v : V) : list (uid * V) :=
  match l with [] => [(k, v)] | (k', v') :: r => if Nat.eqb k' k then (k', v) :: r else (k', v') :: aset r k v end.
Fixpoint adel {V} (l : list (uid * V)) (k : uid) : list (uid * V) :=
  match l with [] => [] | (k', v') :: r => if Nat.eqb k' k then adel r k else (k', v') :: adel r k end.

Definition kids_of (s : st) (u : uid) : list uid := match alookup (kids s) u with Some l => l | None => [] end.
Definition par_of (s : st) (u : uid) : option uid := alookup (par s) u.
Definition kind_of (s : st) (u : uid) : kind := match alookup (kinds s) u with Some k => k | None => KOther end.

Definition set_kids (s : st) (u : uid) (l : list uid) : st :=
  {| kids := aset (kids s) u l; par := par s; kinds := kinds s; labels := labels s |}.
Definition set_par (s : st) (u : uid) (p : option uid) : st :=
  {| kids := kids s; par := match p with Some q => aset (par s) u q | None => adel (par s) u end;
     kinds := kinds s; labels := labels s |}.
Definition detach (s : st) (us : list uid) : st := fold_left (fun a u => set_par a u None) us s.
Definition attach (s : st) (owner : uid) (us : list uid) : st := fold_left (fun a u => set_par a u (Some owner)) us s.

(* the common shape of every list edit *)
Definition update (s : st) (owner : uid) (l' : list uid) (D A : list uid) : st :=
  attach (detach (set_kids s owner l') D) owner A.

(* ---- Python index / slice normalisation --------------------------------------------------- *)
Definition norm_index (len : nat) (i : Z) : option nat :=
  let n := Z.of_nat len in
  if (0 <=? i)%Z && (i <? n)%Z then Some (Z.to_nat i)
  else if (i <? 0)%Z && (- n <=? i)%Z then Some (Z.to_nat (n + i)) else None.
Definition clamp (len : nat) (i : Z) : nat :=
  let n := Z.of_nat len in
  if (i <? 0)%Z then Z.to_nat (Z.max 0 (n + i)) else Z.to_nat (Z.min i n).
Definition slice_bounds (len : nat) (a b : option Z) : nat * nat :=
  let lo := match a with Some x => clamp len x | None => 0 end in
  let hi := match b with Some x => clamp len x | None => len end in
  (lo, Nat.max lo hi).

Fixpoint remove_nth (n : nat) (l : list uid) : list uid :=
  match n, l with 0, _ :: r => r | S m, x :: r => x :: remove_nth m r | _, [] => [] end.
Fixpoint replace_nth (n : nat) (l : list uid) (v : uid) : list uid :=
  match n, l with 0, _ :: r => v :: r | S m, x :: r => x :: replace_nth m r v | _, [] => [] end.
Fixpoint insert_at (n : nat) (l : list uid) (v : uid) : list uid :=
  match n, l with 0, _ => v :: l | S m, x :: r => x :: insert_at m r v | S _, [] => [v] end.
Fixpoint remove_first (x : uid) (l : list uid) : list uid :=
  match l with [] => [] | y :: r => if Nat.eqb x y then r else y :: remove_first x r end.
Definition mem (x : uid) (l : list uid) : bool := existsb (Nat.eqb x) l.

Inductive op : Type :=
| NewUnit (u : uid) (k : kind) (label : nat)      (* a unit constructed stand-alone *)
| Construct (s : uid) (us : list uid) (label : nat)   (* PassSequence(us) *)
| Append (s u : uid) | Prepend (s u : uid) | Insert (s : uid) (i : Z) (u : uid)
| Extend (s : uid) (us : list uid) | IAdd (s : uid) (us : list uid)
| SetItem (s : uid) (i : Z) (u : uid) | SetSlice (s : uid) (a b : option Z) (us : list uid)
| DelItem (s : uid) (i : Z) | DelSlice (s : uid) (a b : option Z)
| Pop (s : uid) (i : option Z) | Remove (s u : uid) | Clear (s : uid) | Drop (s : uid) (i : Z)
| Flatten (s : uid) | ListCopy (s : uid) | Reverse (s : uid).

Definition result := option err.

(* PassSequence.flatten: walk a snapshot of the list; an inner sequence contributes its current units
   and is emptied (its units detached) on the spot *)
Fixpoint flatten_loop (s : st) (items : list uid) (acc : list uid) : st * list uid :=
  match items with
  | [] => (s, acc)
  | u :: r =>
      match kind_of s u with
      | KSeq => flatten_loop (update s u [] (kids_of s u) []) r (acc ++ kids_of s u)
      | _ => flatten_loop s r (acc ++ [u])
      end
  end.

Definition step (s : st) (o : op) : st * result :=
  match o with
  | NewUnit u k lb =>
      ({| kids := aset (kids s) u []; par := adel (par s) u; kinds := aset (kinds s) u k;
          labels := aset (labels s) u lb |}, None)
  | Construct q us lb =>
      let s1 := {| kids := kids s; par := adel (par s) q; kinds := aset (kinds s) q KSeq; labels := aset (labels s) q lb |} in
      (update s1 q us [] us, None)
  | Append q u => (update s q (kids_of s q ++ [u]) [] [u], None)
  | Prepend q u => (update s q (u :: kids_of s q) [] [u], None)
  | Insert q i u => let l := kids_of s q in (update s q (insert_at (clamp (length l) i) l u) [] [u], None)
  | Extend q us | IAdd q us => (update s q (kids_of s q ++ us) [] us, None)
  | SetItem q i u =>
      let l := kids_of s q in
      match norm_index (length l) i with
      | None => (s, Some IndexError)
      | Some n => (update s q (replace_nth n l u) [nth n l 0] [u], None)
      end
  | SetSlice q a b us =>
      let l := kids_of s q in
      let '(lo, hi) := slice_bounds (length l) a b in
      (update s q (firstn lo l ++ us ++ skipn hi l) (firstn (hi - lo) (skipn lo l)) us, None)
  | DelItem q i | Drop q i =>
      let l := kids_of s q in
      match norm_index (length l) i with
      | None => (s, Some IndexError)
      | Some n => (update s q (remove_nth n l) [nth n l 0] [], None)
      end
  | DelSlice q a b =>
      let l := kids_of s q in
      let '(lo, hi) := slice_bounds (length l) a b in
      (update s q (firstn lo l ++ skipn hi l) (firstn (hi - lo) (skipn lo l)) [], None)
  | Pop q i =>
      let l := kids_of s q in
      match norm_index (length l) (match i with Some x => x | None => (-1)%Z end) with
      | None => (s, Some IndexError)
      | Some n => (update s q (remove_nth n l) [nth n l 0] [], None)
      end
  | Remove q u =>
      let l := kids_of s q in
      if mem u l then (update s q (remove_first u l) [u] [], None) else (s, Some ValueError)
  | Clear q => (update s q [] (kids_of s q) [], None)
  | Flatten q =>
      let l := kids_of s q in
      let '(s1, nl) := flatten_loop s l [] in
      let s2 := update s1 q [] (kids_of s1 q) [] in
      (update s2 q nl [] nl, None)
  | ListCopy q => (update s q (kids_of s q) [] (kids_of s q), None)   (* the copy's constructor re-parents every listed unit *)
  | Reverse q => (update s q (rev (kids_of s q)) [] [], None)
  end.

Fixpoint run (s : st) (ops : list op) : st * list result :=
  match ops with
  | [] => (s, [])
  | o :: r => let '(s1, x) := step s o in let '(s2, xs) := run s1 r in (s2, x :: xs)
  end.

Definition init : st := {| kids := []; par := []; kinds := []; labels := [] |}.

(* ---- navigation and access (Unit.prev/next, PassSequence.__getitem__, roll_passes, transports) --- *)
Fixpoint index_of (x : uid) (l : list uid) : option nat :=
  match l with [] => None | y :: r => if Nat.eqb x y then Some 0 else option_map S (index_of x r) end.

Inductive nav : Type := NUnit (u : uid) | NErr (e : err).

Definition prev_of (s : st) (u : uid) : nav :=
  match par_of s u with
  | None => NErr ValueError
  | Some p => match index_of u (kids_of s p) with
              | None => NErr ValueError                     (* list.index raises ValueError *)
              | Some 0 => NErr IndexError
              | Some (S n) => NUnit (nth n (kids_of s p) 0)
              end
  end.
Definition next_of (s : st) (u : uid) : nav :=
  match par_of s u with
  | None => NErr ValueError
  | Some p => match index_of u (kids_of s p) with
              | None => NErr ValueError
              | Some n => if Nat.eqb (S n) (length (kids_of s p)) then NErr IndexError
                          else NUnit (nth (S n) (kids_of s p) 0)
              end
  end.

Definition by_label (s : st) (q : uid) (lb : nat) : nav :=
  match find (fun u => match alookup (labels s) u with Some x => Nat.eqb x lb | None => false end) (kids_of s q) with
  | Some u => NUnit u | None => NErr KeyError end.
Definition by_index (s : st) (q : uid) (i : Z) : nav :=
  match norm_index (length (kids_of s q)) i with Some n => NUnit (nth n (kids_of s q) 0) | None => NErr IndexError end.
Definition of_kind (s : st) (q : uid) (k : kind) : list uid :=
  filter (fun u => match kind_of s u, k with KPass, KPass | KTransport, KTransport => true | _, _ => false end) (kids_of s q).
