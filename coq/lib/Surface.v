(* Roll surface (pyroll/core/roll/hookimpls.py: surface_x, surface_z, surface_y; roll.py: surface_interpolation)
   and spline grooves (pyroll/core/grooves/spline.py).  Models only. *)
From Coq Require Export Reals List QArith Qabs Qminmax Bool.
Export ListNotations.

(* ---------------- real part: surface of revolution, one cell of the multilinear interpolation -------------- *)
Open Scope R_scope.

(* surface_y[k, j] = max_radius - sqrt((max_radius - contour_y[k])^2 - surface_x[j]^2) *)
Definition surf_y (Rmax y x : R) : R := Rmax - sqrt ((Rmax - y) ^ 2 - x ^ 2).

(* surface_x = min_radius * sin(concatenate([-points[::-1], points[1:]])) *)
Definition xgrid (rmin : R) (pts : list R) : list R := map (fun p => rmin * sin p) (map Ropp (rev pts) ++ tl pts).

(* scipy.interpolate.interpn(method="linear") inside one cell [x0,x1] x [z0,z1] with corner values v.. *)
Definition bilin (x0 x1 z0 z1 v00 v01 v10 v11 x z : R) : R :=
  let tx := (x - x0) / (x1 - x0) in let tz := (z - z0) / (z1 - z0) in
  v00 * (1 - tx) * (1 - tz) + v01 * (1 - tx) * tz + v10 * tx * (1 - tz) + v11 * tx * tz.

(* ---------------- rational part: SplineGroove.__init__ and its depth function -------------- *)
Open Scope Q_scope.

Definition close0 (y : Q) : bool := Qle_bool (Qabs y) (1 # 100000000).       (* np.isclose(y, 0) *)

Definition roll_r {A} (d : A) (l : list A) : list A := match l with [] => [] | _ => last l d :: removelast l end.   (* np.roll(l, 1) *)
Definition roll_l {A} (l : list A) : list A := match l with [] => [] | a :: t => t ++ [a] end.                     (* np.roll(l, -1) *)

(* strip boundary: drop the vertices that lie on the face and whose two (cyclic) neighbours both lie on the face *)
Definition strip_with (own : bool) (pts : list (Q * Q)) : list (Q * Q) :=
  let ys := map snd pts in
  map fst (filter (fun t => negb ((if own then close0 (snd (fst t)) else true) && close0 (fst (snd t)) && close0 (snd (snd t))))
                  (combine pts (combine (roll_r 0 ys) (roll_l ys)))).
Definition strip := strip_with true.
Definition strip_pinned := strip_with false.      (* before the repair: the vertex's own height was not looked at *)

Definition Qminl (d : Q) (l : list Q) : Q := fold_left Qmin l d.
Definition Qmaxl (d : Q) (l : list Q) : Q := fold_left Qmax l d.
Definition minx (l : list (Q * Q)) : Q := match l with [] => 0 | p :: t => Qminl (fst p) (map fst t) end.
Definition maxx (l : list (Q * Q)) : Q := match l with [] => 0 | p :: t => Qmaxl (fst p) (map fst t) end.
Definition maxy (l : list (Q * Q)) : Q := match l with [] => 0 | p :: t => Qmaxl (snd p) (map snd t) end.
Definition centre (l : list (Q * Q)) : Q := (minx l + maxx l) / 2.
Definition shift (c : Q) (p : Q * Q) : Q * Q := (fst p - c, snd p).

Record spline := { sp_points : list (Q * Q); sp_width : Q; sp_usable_width : Q; sp_depth : Q }.

Definition spline_init (pts : list (Q * Q)) (usable_width : option Q) : option spline :=
  match pts with
  | [] => None
  | p0 :: _ =>
      if negb (close0 (snd p0)) || negb (close0 (snd (last pts p0))) then None      (* ValueError *)
      else
        let s := strip pts in
        if Nat.ltb (length s) 3 then None else      (* shapely: a linear ring requires at least 4 coordinates, the closing one included (ValueError) *)
        let st := map (shift (centre s)) s in
        let half := fst (last st (0, 0)) in
        Some {| sp_points := st; sp_width := half * 2;
                sp_usable_width := match usable_width with Some u => if Qeq_bool u 0 then half * 2 else u | None => half * 2 end;
                sp_depth := maxy st |}
  end.

(* scipy interp1d(kind="linear", fill_value="extrapolate") on strictly increasing abscissae:
   hi = first index with x[hi] >= z, clipped to 1..n-1;  y = y_lo + (z - x_lo) * slope *)
Definition seg (p0 p1 : Q * Q) (z : Q) : Q := snd p0 + (z - fst p0) * ((snd p1 - snd p0) / (fst p1 - fst p0)).

Fixpoint pl_eval (p0 : Q * Q) (l : list (Q * Q)) (z : Q) : Q :=     (* the polyline p0 :: l *)
  match l with
  | [] => snd p0
  | p1 :: rest => match rest with
                  | [] => seg p0 p1 z
                  | _ => if Qle_bool z (fst p1) then seg p0 p1 z else pl_eval p1 rest z
                  end
  end.

Definition local_depth (s : spline) (z : Q) : Q :=
  match sp_points s with [] => 0 | p0 :: l => pl_eval p0 l z end.

(* correspondence: (input polyline, usable width, queries) -> (stored points, width, usable width, depth, depth at queries) *)
Definition Qpair_eqb (a b : Q * Q) : bool := Qeq_bool (fst a) (fst b) && Qeq_bool (snd a) (snd b).
Fixpoint Qlist_eqb (a b : list Q) : bool :=
  match a, b with [], [] => true | x :: a', y :: b' => Qeq_bool x y && Qlist_eqb a' b' | _, _ => false end.
Fixpoint Qplist_eqb (a b : list (Q * Q)) : bool :=
  match a, b with [], [] => true | x :: a', y :: b' => Qpair_eqb x y && Qplist_eqb a' b' | _, _ => false end.

Record spline_case := { sc_pts : list (Q * Q); sc_uw : option Q; sc_queries : list Q;
                        sc_error : bool; sc_stored : list (Q * Q); sc_width : Q; sc_usable : Q; sc_depth : Q; sc_values : list Q }.

Definition spline_agrees (c : spline_case) : bool :=
  match spline_init (sc_pts c) (sc_uw c) with
  | None => sc_error c
  | Some s => negb (sc_error c) && Qplist_eqb (sp_points s) (sc_stored c) && Qeq_bool (sp_width s) (sc_width c) &&
              Qeq_bool (sp_usable_width s) (sc_usable c) && Qeq_bool (sp_depth s) (sc_depth c) &&
              Qlist_eqb (map (local_depth s) (sc_queries c)) (sc_values c)
  end.

Fixpoint spline_mismatches (cs : list spline_case) (i : nat) : list nat :=
  match cs with [] => [] | c :: rest => (if spline_agrees c then [] else [i]) ++ spline_mismatches rest (S i) end.
