(* Hand-written model of GenericElongationGroove (pyroll/core/grooves/generic_elongation.py):
   the junction chain z0..z12/y0..y12 as real functions of the resolved inputs, the analytic contour
   functions, numpy's piecewise selection and linspace sampling.
   The regenerated tables of Gen_groove.v are tied to these definitions by reflexivity lemmas in the
   property files (so a change of a source formula breaks the tie, not silently the meaning).
   No proofs here. *)
From PyrollLib Require Import Expr ExprFacts.
Open Scope string_scope.
Open Scope R_scope.

Definition Rltb (a b : R) : bool := if Rlt_dec a b then true else false.
Definition Rleb (a b : R) : bool := if Rle_dec a b then true else false.

(* --- numpy.piecewise(z, [c1..cn], [f1..fn, default]) at one point:
       out = default(z); for k = 1..n: if ck(z) then out = fk(z)   (later conditions override) *)
Definition pcond (lo hi : option R) (z : R) : bool :=
  match lo with None => true | Some l => Rleb l z end && match hi with None => true | Some h => Rltb z h end.

Fixpoint np_piecewise (pieces : list (option R * option R * (R -> R))) (acc : R) (z : R) : R :=
  match pieces with
  | [] => acc
  | (lo, hi, f) :: rest => np_piecewise rest (if pcond lo hi z then f z else acc) z
  end.

(* the shape the source uses: z < b1 | b1 <= z < b2 | ... | b(n-1) <= z < bn, default beyond *)
Fixpoint chain_pieces (lo : option R) (f : R -> R) (bfs : list (R * (R -> R))) : list (option R * option R * (R -> R)) * (R -> R) :=
  match bfs with
  | [] => ([], f)
  | (b, f') :: rest => let (ps, d) := chain_pieces (Some b) f' rest in ((lo, Some b, f) :: ps, d)
  end.
(* pieces_of_chain f0 [(b1,f1);...;(bn,fn)] = ([(None,b1,f0); (b1,b2,f1); ...; (b(n-1),bn,f(n-1))], fn) *)
Definition pieces_of_chain (f0 : R -> R) (bfs : list (R * (R -> R))) := chain_pieces None f0 bfs.

(* first-match reading of the same table *)
Fixpoint pw_chain (f0 : R -> R) (bfs : list (R * (R -> R))) (z : R) : R :=
  match bfs with
  | [] => f0 z
  | (b, f) :: rest => if Rltb z b then f0 z else pw_chain f rest z
  end.

(* numpy.linspace(a, b, n, endpoint=False)[i] *)
Definition sample (a b : R) (n i : nat) : R := a + (b - a) * INR i / INR n.

(* --- the junction chain, in source order *)
Section Chain.
  Variable rho : env.
  Notation r1 := (rho "r1"). Notation r2 := (rho "r2"). Notation r3 := (rho "r3"). Notation r4 := (rho "r4").
  Notation a3 := (rho "alpha3"). Notation a4 := (rho "alpha4").
  Notation fa := (rho "flank_angle"). Notation pa := (rho "pad_angle").
  Notation uw := (rho "usable_width"). Notation egw := (rho "even_ground_width").
  Notation dp := (rho "depth"). Notation ind := (rho "indent"). Notation pad := (rho "pad").

  Definition halpha1 := fa + pa.
  Definition halpha2 := fa + a4 - a3.
  Definition hz2 := uw / 2.
  Definition hy2 : R := 0.
  Definition hl12 := r1 * tan (halpha1 / 2).
  Definition hz1 := hz2 + hl12 * cos pa.
  Definition hy1 := hl12 * sin pa.
  Definition hz0 := hz1 + pad * cos pa.
  Definition hy0 := hy1 + pad * sin pa.
  Definition hz12 := hz1 - r1 * sin pa.
  Definition hy12 := hy1 + r1 * cos pa.
  Definition hz3 := hz12 - r1 * sin fa.
  Definition hy3 := hy12 - r1 * cos fa.
  Definition hz9 : R := 0.
  Definition hy9 := dp - ind.
  Definition hz7 := egw / 2.
  Definition hy7 := hy9.
  Definition hz8 := hz7.
  Definition hy8 := hy9 + r4.
  Definition hz6 := hz8 + r4 * sin a4.
  Definition hy6 := hy8 - r4 * cos a4.
  Definition hbeta := a4 - a3 / 2.
  Definition hz10 := hz6 + r3 * sin (a3 / 2 + hbeta).
  Definition hy10 := hy6 - r3 * cos (a3 / 2 + hbeta).
  Definition hz5 := hz10 + r3 * sin (a3 / 2 - hbeta).
  Definition hy5 := hy10 + r3 * cos (a3 / 2 - hbeta).
  Definition hz11 := hz10 + (r3 - r2) * sin (a3 / 2 - hbeta).
  Definition hy11 := hy10 + (r3 - r2) * cos (a3 / 2 - hbeta).
  Definition hgamma := PI / 2 - halpha2 - a3 + a4.
  Definition hz4 := hz11 + r2 * cos hgamma.
  Definition hy4 := hy11 + r2 * sin hgamma.

  Definition hf_r1 (z : R) := hy12 - sqrt (r1 ^ 2 - (z - hz12) ^ 2).
  Definition hf_r2 (z : R) := hy11 + sqrt (r2 ^ 2 - (z - hz11) ^ 2).
  Definition hf_r3 (z : R) := hy10 + sqrt (r3 ^ 2 - (z - hz10) ^ 2).
  Definition hf_r4 (z : R) := hy8 - sqrt (r4 ^ 2 - (z - hz8) ^ 2).
  Definition hf_flank (z : R) := hy3 - tan fa * (z - hz3).
  Definition hf_ground (z : R) := dp - ind.
  Definition hf_face (z : R) := hy1 + tan pa * (z - hz1).

  (* local_depth: np.piecewise over |z| *)
  Definition hchain : list (R * (R -> R)) :=
    [(hz7, hf_r4); (hz6, hf_r3); (hz5, hf_r2); (hz4, hf_flank); (hz3, hf_r1); (hz1, hf_face)].
  Definition hlocal_depth (z : R) : R :=
    let (ps, d) := pieces_of_chain hf_ground hchain in np_piecewise ps (d (Rabs z)) (Rabs z).

  (* what the constructor's acceptance and the documented parameter ranges provide *)
  Record wellformed : Prop := {
    wf_r1 : 0 <= r1; wf_r2 : 0 <= r2; wf_r3 : 0 <= r3; wf_r4 : 0 <= r4;
    wf_cfa : 0 < cos fa;                      (* flank angle below 90 degrees: no undercut *)
    wf_cpa : 0 < cos pa;
    wf_ch : cos (halpha1 / 2) <> 0;
    wf_ca4 : 0 <= cos a4;
    wf_c35 : 0 <= cos (a3 / 2 - hbeta);
    wf_sg : 0 <= sin hgamma;
    wf_o97 : 0 <= hz7; wf_o76 : hz7 <= hz6; wf_o65 : hz6 <= hz5; wf_o54 : hz5 <= hz4;
    wf_o43 : hz4 <= hz3; wf_o31 : hz3 <= hz1; wf_o10 : hz1 <= hz0;
    wf_closed : hf_flank hz4 = hy4            (* no step at z4: what the solvers establish and test_plausibility checks *)
  }.
End Chain.

(* --- reading the regenerated tables *)
Definition gpiece (rho : env) (p : option expr * option expr * expr) : option R * option R * (R -> R) :=
  let '(lo, hi, f) := p in (option_map (eval rho) lo, option_map (eval rho) hi, fun z => eval (upd rho "z" z) f).

Definition glocal_depth (rho : env) (pieces : list (option expr * option expr * expr)) (default : expr) (z : R) : R :=
  np_piecewise (map (gpiece rho) pieces) (eval (upd rho "z" (Rabs z)) default) (Rabs z).

(* polyline of the right half: items in source order *)
Inductive citem : Type :=
| CPoint (z y : expr) (skip_if_close : option (expr * expr))     (* yield z, y  [if not isclose(a, b)] *)
| CSeg (a b f : expr).                                            (* for z in linspace(a, b, n, endpoint=False): yield z, f(z) [if not isclose(a, b)] *)

Definition seg_points (rho : env) (a b f : expr) (n : nat) : list (R * R) :=
  map (fun i => let z := sample (eval rho a) (eval rho b) n i in (z, eval (upd rho "z" z) f)) (seq 0 n).

(* all candidate vertices of the right half (the isclose guards only ever drop items) *)
Definition item_points (rho : env) (n : nat) (it : citem) : list (R * R) :=
  match it with
  | CPoint z y _ => [(eval rho z, eval rho y)]
  | CSeg a b f => seg_points rho a b f n
  end.
Definition right_points (rho : env) (n : nat) (items : list citem) : list (R * R) := flat_map (item_points rho n) items.

(* the full polyline from the (filtered) right half:  mirror(right[:-1]) ++ reverse(right) *)
Definition mirror (p : R * R) : R * R := (- fst p, snd p).
Definition full_contour (right : list (R * R)) : list (R * R) := map mirror (removelast right) ++ rev right.
