(* Theorems about the hook machine (C01, C02, C07). *)
From PyrollLib Require Import HookMachine.
From Coq Require Import Lia.

(* ------------------------------------------------------------------------------------------- *)
(* generic association-list facts *)
Lemma key3_eqb_spec a b : reflect (a = b) (key3_eqb a b).
Proof.
  destruct a as [[c1 h1] t1], b as [[c2 h2] t2]. cbn.
  destruct (Nat.eqb_spec c1 c2), (Nat.eqb_spec h1 h2), (Nat.eqb_spec t1 t2); cbn; constructor; congruence.
Qed.
Lemma key2_eqb_spec a b : reflect (a = b) (key2_eqb a b).
Proof.
  destruct a as [o1 h1], b as [o2 h2]. unfold key2_eqb. cbn.
  destruct (Nat.eqb_spec o1 o2), (Nat.eqb_spec h1 h2); cbn; constructor; congruence.
Qed.

Section Assoc.
Context {K V : Type} (eqb : K -> K -> bool) (eqb_spec : forall a b, reflect (a = b) (eqb a b)).
Lemma alookup_aset (l : list (K * V)) k v k' :
  alookup eqb (aset eqb l k v) k' = if eqb k k' then Some v else alookup eqb l k'.
Proof.
  induction l as [|[k0 v0] l IH]; cbn.
  - destruct (eqb k k'); reflexivity.
  - destruct (eqb_spec k0 k); cbn.
    + subst k0. destruct (eqb_spec k k'); reflexivity.
    + destruct (eqb_spec k0 k'); [subst; destruct (eqb_spec k k'); congruence | exact IH].
Qed.
Lemma aset_keys_in (l : list (K * V)) k v : alookup eqb l k <> None -> map fst (aset eqb l k v) = map fst l.
Proof.
  induction l as [|[k0 v0] l IH]; cbn; [congruence|].
  destruct (eqb_spec k0 k); cbn; [subst; reflexivity|]. intro H. f_equal. apply IH. exact H.
Qed.
End Assoc.

(* ------------------------------------------------------------------------------------------- *)
(* frame: evaluation never touches registrations, explicit values or the class of objects, and (with the
   repaired semantics) leaves every cycle flag as it found it *)
Definition frame (a b : state) : Prop :=
  stores b = stores a /\ impls b = impls a /\ dict b = dict a /\ ocls b = ocls a /\ cyc b = cyc a /\ inget b = inget a.

Lemma frame_refl a : frame a a.
Proof. repeat split. Qed.
Lemma frame_trans a b c : frame a b -> frame b c -> frame a c.
Proof. unfold frame. intuition congruence. Qed.
Lemma frame_set_cache a c : frame a (set_cache a c).
Proof. repeat split. Qed.

Definition gr_t := state -> obj -> cls -> hook -> state * outcome.
Definition gr_frame (gr : gr_t) : Prop := forall st o c h, frame st (fst (gr st o c h)).

Section Frames.
Variable mro : cls -> list cls.

Lemma read_with_frame gr st o h : gr_frame gr -> frame st (fst (read_with gr st o h)).
Proof.
  intro G. unfold read_with.
  destruct (match alookup key2_eqb (dict st) (o, h) with Some VNone | None => None | Some v => Some v end) as [v|].
  - destruct v; apply frame_refl.
  - destruct (match alookup key2_eqb (cache st) (o, h) with Some VNone | None => None | Some v => Some v end) as [v|];
      [apply frame_refl|].
    pose proof (G (set_inget st true) o (cls_of st o) h) as G'.
    destruct (gr (set_inget st true) o (cls_of st o) h) as [st0 r]. cbn [fst] in *.
    assert (F1 : frame st (set_inget st0 (inget st))).
    { destruct G' as [A [B [C [D [E _]]]]]. unfold frame. cbn in *. repeat split; assumption. }
    destruct r as [v|e].
    + destruct v; cbn [fst]; try exact F1;
        match goal with |- context [if ?b then _ else _] => destruct b end; cbn [fst];
        try exact F1; (eapply frame_trans; [exact F1 | apply frame_set_cache]).
    + destruct e; exact F1.
Qed.

Lemma has_with_frame gr k st o h : gr_frame gr -> frame st (fst (has_with gr k st o h)).
Proof.
  intro G. unfold has_with. destruct k; try apply frame_refl.
  pose proof (read_with_frame gr st o h G) as F. destruct (read_with gr st o h) as [st1 r]. cbn [fst] in *.
  destruct r as [v|e]; [exact F|]. destruct e; exact F.
Qed.

Lemma exec_frame gr o p : gr_frame gr -> forall cy st, frame st (fst (exec gr o p cy st)).
Proof.
  intro G. induction p as [v|e|r h'|a IHa b IHb|a IHa b IHb|k r h' a IHa b IHb|a IHa b IHb|a IHa b IHb]; intros cy st; cbn [exec].
  - apply frame_refl.
  - apply frame_refl.
  - apply read_with_frame; assumption.
  - specialize (IHa cy st). destruct (exec gr o a cy st) as [st1 ra]. cbn [fst] in *.
    destruct ra as [va|ea]; [|exact IHa].
    specialize (IHb cy st1). destruct (exec gr o b cy st1) as [st2 rb]. cbn [fst] in *.
    destruct rb; cbn [fst]; eapply frame_trans; eassumption.
  - destruct cy; [apply IHa | apply IHb].
  - pose proof (has_with_frame gr k st (the_obj o r) h' G) as F.
    destruct (has_with gr k st (the_obj o r) h') as [st1 t]. cbn [fst] in *.
    destruct t as [v|e]; [|exact F].
    destruct v as [| |[|]| | | | | |]; (eapply frame_trans; [exact F|]); first [apply IHa | apply IHb].
  - specialize (IHa cy st). destruct (exec gr o a cy st) as [st1 ra]. cbn [fst] in *.
    destruct ra as [va|ea]; [exact IHa|].
    destruct ea; try exact IHa. eapply frame_trans; [exact IHa | apply IHb].
  - specialize (IHa cy st). destruct (exec gr o a cy st) as [st1 ra]. cbn [fst] in *.
    destruct ra as [va|ea]; [|exact IHa]. eapply frame_trans; [exact IHa | apply IHb].
Qed.

Lemma remove_first_head i l : remove_first i (i :: l) = l.
Proof. cbn. rewrite Nat.eqb_refl. reflexivity. Qed.

Lemma call_frame gr o c h i st : gr_frame gr -> frame st (fst (call sem_fixed gr o c h i st)).
Proof.
  intro G. unfold call. destruct (alookup Nat.eqb (impls st) i) as [im|]; [|apply frame_refl].
  set (st0 := push_trace (set_cyc st (i :: cyc st)) i).
  assert (F0 : stores st0 = stores st /\ impls st0 = impls st /\ dict st0 = dict st /\ ocls st0 = ocls st /\
               cyc st0 = i :: cyc st /\ inget st0 = inget st) by (repeat split).
  assert (K : forall st1 (r : outcome), frame st0 st1 ->
              frame st (fst (set_cyc st1 (after_call sem_fixed st1 i), r))).
  { intros st1 r [A [B [C [D [E I]]]]]. destruct F0 as [A0 [B0 [C0 [D0 [E0 I0]]]]].
    unfold after_call. cbn [restore_flag sem_fixed fst]. unfold frame. cbn.
    rewrite A, B, C, D, E, I, A0, B0, C0, D0, E0, I0, remove_first_head. repeat split. }
  destruct (i_body im) as [p|guarded post].
  - pose proof (exec_frame gr o p G (flagged st i) st0) as F.
    destruct (exec gr o p (flagged st i) st0) as [st1 r]. apply K. exact F.
  - destruct (guarded && flagged st i)%bool.
    + apply K. apply frame_refl.
    + destruct (pre_raise post); [apply K; apply frame_refl|].
      cbn [wrapper_inner_from_instance sem_fixed].
      pose proof (G st0 o c h) as F. destruct (gr st0 o c h) as [sti ri]. cbn [fst] in F.
      destruct ri; apply K; exact F.
Qed.

Lemma scan_frame gr o c h l : gr_frame gr -> forall st, frame st (fst (scan sem_fixed gr o c h l st)).
Proof.
  intro G. induction l as [|i rest IH]; intro st; cbn [scan]; [apply frame_refl|].
  pose proof (call_frame gr o c h i st G) as F. destruct (call sem_fixed gr o c h i st) as [st1 r]. cbn [fst] in F.
  destruct r as [v|e]; [|exact F]. destruct v; try exact F. eapply frame_trans; [exact F | apply IH].
Qed.

Theorem get_result_frame n : gr_frame (get_result mro sem_fixed n).
Proof.
  induction n as [|m IH]; intros st o c h; cbn [get_result]; [apply frame_refl|].
  apply scan_frame. exact IH.
Qed.

Theorem read_frame n st o h : frame st (fst (read mro sem_fixed n st o h)).
Proof. apply read_with_frame. apply get_result_frame. Qed.

(* every cycle flag is False after any top-level operation, whatever its outcome *)
Theorem step_flags fuel st op : cyc st = [] -> cyc (fst (step mro sem_fixed fuel st op)) = [].
Proof.
  intro H. destruct op; cbn -[read get_result functions]; try assumption.
  - destruct (alookup Nat.eqb (impls st) i); cbn; assumption.
  - destruct (alookup Nat.eqb (impls st) i); cbn; assumption.
  - pose proof (read_frame fuel st o h) as F. destruct (read mro sem_fixed fuel st o h) as [st1 r].
    cbn [fst] in *. destruct F as [_ [_ [_ [_ [E _]]]]]. congruence.
  - assert (G : forall ks st0, cyc st0 = [] -> cyc (fst (reeval_keys mro sem_fixed fuel st0 o ks)) = []).
    { induction ks as [|[o' h'] ks IH]; intros st0 H0; cbn [reeval_keys]; [assumption|].
      destruct (Nat.eqb o' o); [|apply IH; assumption].
      pose proof (get_result_frame fuel st0 o (cls_of st0 o) h') as F.
      destruct (get_result mro sem_fixed fuel st0 o (cls_of st0 o) h') as [st1 res]. cbn [fst] in F.
      destruct F as [_ [_ [_ [_ [E _]]]]]. destruct res; cbn [fst]; [apply IH; cbn; congruence | congruence]. }
    specialize (G (map fst (cache st)) st H). destruct (reeval_keys mro sem_fixed fuel st o (map fst (cache st))).
    cbn [fst] in *. assumption.
  - assert (G : forall hl st0, cyc st0 = [] -> cyc (fst (eval_roots mro sem_fixed fuel st0 o hl)) = []).
    { induction hl as [|h' hl IH]; intros st0 H0; cbn [eval_roots]; [assumption|].
      pose proof (get_result_frame fuel st0 o (cls_of st0 o) h') as F.
      destruct (get_result mro sem_fixed fuel st0 o (cls_of st0 o) h') as [st1 res]. cbn [fst] in F.
      destruct F as [_ [_ [_ [_ [E _]]]]]. destruct res as [v|e]; cbn [fst]; [|congruence].
      destruct v; cbn [fst]; try congruence; apply IH; cbn; congruence. }
    specialize (G hs st H). destruct (eval_roots mro sem_fixed fuel st o hs). cbn [fst] in *. assumption.
  - pose proof (has_with_frame (get_result mro sem_fixed fuel) k st o h (get_result_frame fuel)) as F.
    destruct (has_with (get_result mro sem_fixed fuel) k st o h) as [st1 r]. cbn [fst] in *.
    destruct F as [_ [_ [_ [_ [E _]]]]]. congruence.
Qed.

Theorem run_flags fuel ops : forall st, cyc st = [] -> cyc (fst (run mro sem_fixed fuel st ops)) = [].
Proof.
  induction ops as [|o r IH]; intros st H; cbn [run]; [assumption|].
  pose proof (step_flags fuel st o H) as F. destruct (step mro sem_fixed fuel st o) as [st1 x]. cbn [fst] in F.
  specialize (IH st1 F). destruct (run mro sem_fixed fuel st1 r) as [st2 xs]. cbn [fst] in *. assumption.
Qed.

(* the mark "a read is computing further up the stack" is put back by every operation: every read issued from outside is an outermost read *)
Theorem step_inget fuel st op : inget (fst (step mro sem_fixed fuel st op)) = inget st.
Proof.
  destruct op; cbn -[read get_result functions]; try reflexivity.
  - destruct (alookup Nat.eqb (impls st) i); cbn; reflexivity.
  - destruct (alookup Nat.eqb (impls st) i); cbn; reflexivity.
  - pose proof (read_frame fuel st o h) as F. destruct (read mro sem_fixed fuel st o h) as [st1 r].
    cbn [fst] in *. destruct F as [_ [_ [_ [_ [_ E]]]]]. exact E.
  - assert (G : forall ks st0, inget (fst (reeval_keys mro sem_fixed fuel st0 o ks)) = inget st0).
    { induction ks as [|[o' h'] ks IH]; intros st0; cbn [reeval_keys]; [reflexivity|].
      destruct (Nat.eqb o' o); [|apply IH].
      pose proof (get_result_frame fuel st0 o (cls_of st0 o) h') as F.
      destruct (get_result mro sem_fixed fuel st0 o (cls_of st0 o) h') as [st1 res]. cbn [fst] in F.
      destruct F as [_ [_ [_ [_ [_ E]]]]]. destruct res; cbn [fst]; [rewrite IH; cbn; exact E | exact E]. }
    specialize (G (map fst (cache st)) st). destruct (reeval_keys mro sem_fixed fuel st o (map fst (cache st))).
    cbn [fst] in *. assumption.
  - assert (G : forall hl st0, inget (fst (eval_roots mro sem_fixed fuel st0 o hl)) = inget st0).
    { induction hl as [|h' hl IH]; intros st0; cbn [eval_roots]; [reflexivity|].
      pose proof (get_result_frame fuel st0 o (cls_of st0 o) h') as F.
      destruct (get_result mro sem_fixed fuel st0 o (cls_of st0 o) h') as [st1 res]. cbn [fst] in F.
      destruct F as [_ [_ [_ [_ [_ E]]]]]. destruct res as [v|e]; cbn [fst]; [|exact E].
      destruct v; cbn [fst]; try exact E; rewrite IH; cbn; exact E. }
    specialize (G hs st). destruct (eval_roots mro sem_fixed fuel st o hs). cbn [fst] in *. assumption.
  - pose proof (has_with_frame (get_result mro sem_fixed fuel) k st o h (get_result_frame fuel)) as F.
    destruct (has_with (get_result mro sem_fixed fuel) k st o h) as [st1 r]. cbn [fst] in *.
    destruct F as [_ [_ [_ [_ [_ E]]]]]. exact E.
Qed.

Theorem run_inget fuel ops : forall st, inget (fst (run mro sem_fixed fuel st ops)) = inget st.
Proof.
  induction ops as [|o r IH]; intros st; cbn [run]; [reflexivity|].
  pose proof (step_inget fuel st o) as F. destruct (step mro sem_fixed fuel st o) as [st1 x]. cbn [fst] in F.
  specialize (IH st1). destruct (run mro sem_fixed fuel st1 r) as [st2 xs]. cbn [fst] in *. congruence.
Qed.

End Frames.

(* ------------------------------------------------------------------------------------------- *)
(* C01: the six per-class stores refine the abstract registration log; Hook.functions is the documented
   priority order computed from that log *)
Definition entry := (iid * impl)%type.
Definition ekey (e : entry) : key3 := (i_owner (snd e), i_hook (snd e), store_ix (snd e)).
Definition matches (k : key3) (e : entry) : bool := key3_eqb (ekey e) k.
Definition log_store (log : list entry) (k : key3) : list iid := map fst (filter (matches k) log).

(* tier-major (wrappers first/normal/last, then plain first/normal/last), MRO-minor, latest first *)
Definition chain (mro : cls -> list cls) (log : list entry) (c : cls) (h : hook) : list iid :=
  flat_map (fun t => flat_map (fun s => rev (log_store log (s, h, t))) (mro c)) [0; 1; 2; 3; 4; 5].

Definition log_step (log : list entry) (o : op) : list entry :=
  match o with
  | Register i im => log ++ [(i, im)]
  | Remove i => filter (fun e => negb (Nat.eqb (fst e) i)) log
  | RemoveVia c i => filter (fun e => negb (Nat.eqb (fst e) i && Nat.eqb (i_owner (snd e)) c)) log
  | _ => log
  end.

Definition step_ok (st : state) (o : op) : Prop :=
  match o with
  | Register i im => alookup Nat.eqb (impls st) i = None /\ i_tier im <= 2
  | _ => True
  end.

Record Inv (st : state) (log : list entry) : Prop := {
  inv_store : forall k, store_of st k = log_store log k;
  inv_nodup : NoDup (map fst log);
  inv_impls : forall i im, In (i, im) log -> alookup Nat.eqb (impls st) i = Some im;
  inv_tier : forall i im, In (i, im) log -> i_tier im <= 2 }.

Lemma remove_first_notin i l : ~ In i l -> remove_first i l = l.
Proof.
  induction l as [|y r IH]; cbn; intro H; [reflexivity|].
  destruct (Nat.eqb_spec i y); [subst; exfalso; apply H; left; reflexivity|]. f_equal. apply IH. tauto.
Qed.

Lemma remove_first_nodup i l : NoDup l -> remove_first i l = filter (fun j => negb (Nat.eqb j i)) l.
Proof.
  induction 1 as [|y r Hy Hr IH]; cbn; [reflexivity|].
  destruct (Nat.eqb_spec i y).
  - subst. rewrite Nat.eqb_refl. cbn. rewrite <- IH. symmetry. apply remove_first_notin. assumption.
  - destruct (Nat.eqb_spec y i); [congruence|]. cbn. f_equal. exact IH.
Qed.

Definition sget (s : list (key3 * list iid)) (k : key3) : list iid :=
  match alookup key3_eqb s k with Some l => l | None => [] end.

Lemma sget_aset s k v k' : sget (aset key3_eqb s k v) k' = if key3_eqb k k' then v else sget s k'.
Proof. unfold sget. rewrite (alookup_aset key3_eqb key3_eqb_spec). destruct (key3_eqb k k'); reflexivity. Qed.

Lemma fold_remove c h i ts : NoDup ts -> forall s k,
  sget (fold_left (fun s t => match alookup key3_eqb s (c, h, t) with
                              | Some l => aset key3_eqb s (c, h, t) (remove_first i l) | None => s end) ts s) k
  = if existsb (fun t => key3_eqb (c, h, t) k) ts then remove_first i (sget s k) else sget s k.
Proof.
  induction 1 as [|t ts Ht Hts IH]; intros s k; cbn [fold_left existsb]; [reflexivity|].
  rewrite IH. clear IH.
  destruct (key3_eqb_spec (c, h, t) k) as [E|NE].
  - subst k. cbn [orb].
    assert (X : existsb (fun t0 => key3_eqb (c, h, t0) (c, h, t)) ts = false).
    { apply not_true_is_false. intro B. apply existsb_exists in B. destruct B as [t0 [I0 E0]].
      destruct (key3_eqb_spec (c, h, t0) (c, h, t)) as [E1|]; [|discriminate]. inversion E1; subst. contradiction. }
    rewrite X. unfold sget.
    destruct (alookup key3_eqb s (c, h, t)) as [l|] eqn:A.
    + rewrite (alookup_aset key3_eqb key3_eqb_spec). destruct (key3_eqb_spec (c, h, t) (c, h, t)); [reflexivity|congruence].
    + rewrite A. reflexivity.
  - cbn [orb].
    assert (Y : sget (match alookup key3_eqb s (c, h, t) with
                      | Some l => aset key3_eqb s (c, h, t) (remove_first i l) | None => s end) k = sget s k).
    { destruct (alookup key3_eqb s (c, h, t)); [|reflexivity]. rewrite sget_aset.
      destruct (key3_eqb_spec (c, h, t) k); [contradiction|reflexivity]. }
    rewrite Y. reflexivity.
Qed.

Lemma store_of_remove st c h i k :
  store_of (remove_from_hook st c h i) k =
  if existsb (fun t => key3_eqb (c, h, t) k) [0; 1; 2; 3; 4; 5] then remove_first i (store_of st k) else store_of st k.
Proof.
  unfold store_of, remove_from_hook. cbn [stores with_stores].
  apply (fold_remove c h i [0; 1; 2; 3; 4; 5]). repeat constructor; cbn; intuition lia.
Qed.

Lemma log_store_app log e k : log_store (log ++ [e]) k = log_store log k ++ (if matches k e then [fst e] else []).
Proof. unfold log_store. rewrite filter_app, map_app. cbn [filter]. destruct (matches k e); reflexivity. Qed.

Lemma log_store_filter log p k : log_store (filter p log) k = map fst (filter p (filter (matches k) log)).
Proof.
  unfold log_store. f_equal. induction log as [|e r IH]; cbn [filter]; [reflexivity|].
  destruct (p e) eqn:P; destruct (matches k e) eqn:M; cbn [filter]; rewrite ?P, ?M; rewrite IH; reflexivity.
Qed.

Lemma in_log_store log k i : In i (log_store log k) -> exists im, In (i, im) log /\ matches k (i, im) = true.
Proof.
  unfold log_store. intro H. apply in_map_iff in H. destruct H as [[i' im] [E I]]. cbn in E. subst i'.
  apply filter_In in I. exists im. exact I.
Qed.

Lemma nodup_log_store log k : NoDup (map fst log) -> NoDup (log_store log k).
Proof.
  unfold log_store. induction log as [|e r IH]; cbn [map filter]; intro H; [constructor|].
  inversion H as [|? ? Hn Hr]; subst. destruct (matches k e); cbn [map]; [|apply IH; assumption].
  constructor; [|apply IH; assumption]. intro I. apply Hn. apply in_map_iff in I. destruct I as [x [E I]].
  apply filter_In in I. apply in_map_iff. exists x. tauto.
Qed.

Lemma filter_id_map log (p : entry -> bool) (q : iid -> bool) :
  (forall e, In e log -> p e = q (fst e)) -> map fst (filter p log) = filter q (map fst log).
Proof.
  induction log as [|e r IH]; cbn; intro H; [reflexivity|].
  rewrite (H e (or_introl eq_refl)). destruct (q (fst e)); cbn; rewrite IH; auto.
Qed.

Lemma nodup_snoc (l : list nat) i : NoDup l -> ~ In i l -> NoDup (l ++ [i]).
Proof.
  induction 1 as [|x r Hx Hr IH]; intro Fr; cbn [app]; [constructor; [intros []|constructor]|].
  constructor.
  - intro X. apply in_app_or in X. destruct X as [X|[X|[]]]; [contradiction|]. subst. apply Fr. left. reflexivity.
  - apply IH. intro X. apply Fr. right. assumption.
Qed.

Section Refinement.
Variable mro : cls -> list cls.
Variable S_ : sem.

Lemma inv_register st log i im : Inv st log -> step_ok st (Register i im) ->
  Inv (fst (step mro S_ 0 st (Register i im))) (log ++ [(i, im)]).
Proof.
  intros [I1 I2 I3 I4] [F T]. cbn [step fst].
  assert (Fr : ~ In i (map fst log)).
  { intro X. apply in_map_iff in X. destruct X as [[i' im'] [E X]]. cbn in E. subst i'.
    rewrite (I3 _ _ X) in F. discriminate. }
  split.
  - intro k. unfold store_of at 1. cbn [stores with_stores]. fold (sget (aset key3_eqb (stores st)
      (i_owner im, i_hook im, store_ix im) (store_of st (i_owner im, i_hook im, store_ix im) ++ [i])) k).
    rewrite sget_aset, log_store_app. unfold matches, ekey. cbn [snd fst].
    destruct (key3_eqb_spec (i_owner im, i_hook im, store_ix im) k) as [E|NE].
    + subst k. rewrite I1. reflexivity.
    + rewrite app_nil_r. apply I1.
  - rewrite map_app. cbn [map fst]. apply nodup_snoc; assumption.
  - intros j jm X. apply in_app_or in X. cbn [impls with_stores alookup].
    destruct X as [X|[X|[]]].
    + destruct (Nat.eqb_spec i j); [subst; exfalso; apply Fr; apply in_map_iff; exists (j, jm); tauto | apply I3; assumption].
    + inversion X; subst. rewrite Nat.eqb_refl. reflexivity.
  - intros j jm X. apply in_app_or in X. destruct X as [X|[X|[]]]; [eapply I4; eassumption | inversion X; subst; assumption].
Qed.
End Refinement.

Lemma nodup_map_filter {A B} (f : A -> B) (p : A -> bool) l : NoDup (map f l) -> NoDup (map f (filter p l)).
Proof.
  induction l as [|x r IH]; cbn [map filter]; intro H; [constructor|].
  inversion H as [|? ? Hn Hr]; subst. destruct (p x); cbn [map]; [|apply IH; assumption].
  constructor; [|apply IH; assumption]. intro X. apply Hn. apply in_map_iff in X. destruct X as [y [E X]].
  apply filter_In in X. apply in_map_iff. exists y. tauto.
Qed.

Lemma existsb_keys c h k :
  existsb (fun t => key3_eqb (c, h, t) k) [0; 1; 2; 3; 4; 5] =
  let '(kc, kh, kt) := k in (Nat.eqb c kc && Nat.eqb h kh && Nat.leb kt 5)%bool.
Proof.
  destruct k as [[kc kh] kt]. cbn [existsb key3_eqb].
  destruct (Nat.eqb c kc), (Nat.eqb h kh); cbn [andb orb]; try reflexivity.
  destruct kt as [|[|[|[|[|[|kt]]]]]]; reflexivity.
Qed.

Lemma store_ix_le im : i_tier im <= 2 -> store_ix im <= 5.
Proof. unfold store_ix. destruct (i_wrapper im); lia. Qed.

Lemma inv_remove_via st log c i im : Inv st log -> alookup Nat.eqb (impls st) i = Some im ->
  Inv (remove_from_hook st c (i_hook im) i)
      (filter (fun e => negb (Nat.eqb (fst e) i && Nat.eqb (i_owner (snd e)) c)) log).
Proof.
  intros [I1 I2 I3 I4] A. split.
  - intro k. rewrite store_of_remove, existsb_keys, log_store_filter, I1.
    destruct k as [[kc kh] kt].
    set (L := filter (matches (kc, kh, kt)) log).
    assert (ND : NoDup (map fst L)) by (apply (nodup_log_store log (kc, kh, kt)); assumption).
    assert (Q : map fst (filter (fun e => negb (Nat.eqb (fst e) i && Nat.eqb (i_owner (snd e)) c)) L)
                = filter (fun j => negb (Nat.eqb j i && Nat.eqb kc c)) (map fst L)).
    { apply filter_id_map. intros e He. unfold L in He. apply filter_In in He. destruct He as [_ M].
      unfold matches, ekey in M. destruct (key3_eqb_spec (i_owner (snd e), i_hook (snd e), store_ix (snd e)) (kc, kh, kt)) as [E|]; [|discriminate].
      inversion E; subst. reflexivity. }
    etransitivity; [|symmetry; exact Q]. clear Q. unfold log_store. fold L.
    destruct (Nat.eqb_spec c kc) as [Ec|Nc].
    + subst kc. rewrite Nat.eqb_refl. cbn [andb].
      assert (R : filter (fun j => negb (Nat.eqb j i && true)) (map fst L) = remove_first i (map fst L)).
      { rewrite remove_first_nodup by assumption. apply filter_ext. intro j. rewrite andb_true_r. reflexivity. }
      rewrite R.
      destruct (Nat.eqb (i_hook im) kh && Nat.leb kt 5)%bool eqn:B; [reflexivity|].
      symmetry. apply remove_first_notin. intro X.
      apply (in_log_store log (c, kh, kt)) in X. destruct X as [im' [X M]].
      pose proof (I3 _ _ X) as A'. rewrite A in A'. inversion A'; subst im'.
      unfold matches, ekey in M. cbn [snd] in M.
      destruct (key3_eqb_spec (i_owner im, i_hook im, store_ix im) (c, kh, kt)) as [E|]; [|discriminate].
      inversion E; subst. rewrite Nat.eqb_refl in B. cbn [andb] in B.
      pose proof (store_ix_le im (I4 _ _ X)) as Le. apply Nat.leb_gt in B. lia.
    + cbn [andb].
      assert (R : filter (fun j => negb (Nat.eqb j i && Nat.eqb kc c)) (map fst L) = map fst L).
      { clear - Nc. induction (map fst L) as [|j r IH]; cbn [filter]; [reflexivity|].
        destruct (Nat.eqb_spec kc c); [congruence|]. rewrite andb_false_r. cbn [negb]. f_equal. exact IH. }
      rewrite R. reflexivity.
  - apply nodup_map_filter. assumption.
  - intros j jm X. apply filter_In in X. destruct X as [X _]. cbn [impls remove_from_hook with_stores]. apply I3. assumption.
  - intros j jm X. apply filter_In in X. destruct X as [X _]. eapply I4. eassumption.
Qed.

Lemma filter_all_true {A} (p : A -> bool) l : (forall x, In x l -> p x = true) -> filter p l = l.
Proof.
  induction l as [|x r IH]; cbn [filter]; intro H; [reflexivity|].
  rewrite (H x (or_introl eq_refl)). f_equal. apply IH. intros y Hy. apply H. right. assumption.
Qed.

Section RunRefines.
Variable mro : cls -> list cls.

Definition regs_same (a b : state) : Prop := stores b = stores a /\ impls b = impls a.

Lemma reeval_regs fuel o ks : forall st, regs_same st (fst (reeval_keys mro sem_fixed fuel st o ks)).
Proof.
  induction ks as [|[o' h'] ks IH]; intro st; cbn [reeval_keys]; [split; reflexivity|].
  destruct (Nat.eqb o' o); [|apply IH].
  pose proof (get_result_frame mro fuel st o (cls_of st o) h') as F.
  destruct (get_result mro sem_fixed fuel st o (cls_of st o) h') as [st1 res]. cbn [fst] in F.
  destruct F as [A [B _]]. destruct res; cbn [fst]; [|split; assumption].
  destruct (IH (set_cache st1 (aset key2_eqb (cache st1) (o, h') v))) as [C D]. cbn in C, D. split; congruence.
Qed.

Lemma roots_regs fuel o hl : forall st, regs_same st (fst (eval_roots mro sem_fixed fuel st o hl)).
Proof.
  induction hl as [|h' hl IH]; intro st; cbn [eval_roots]; [split; reflexivity|].
  pose proof (get_result_frame mro fuel st o (cls_of st o) h') as F.
  destruct (get_result mro sem_fixed fuel st o (cls_of st o) h') as [st1 res]. cbn [fst] in F.
  destruct F as [A [B _]]. destruct res as [v|e]; cbn [fst]; [|split; assumption].
  destruct v; cbn [fst]; try (split; assumption);
  match goal with |- regs_same _ (fst (eval_roots _ _ _ ?s _ _)) => destruct (IH s) as [C D]; cbn in C, D; split; congruence end.
Qed.

Lemma inv_regs_same st st' log : regs_same st st' -> Inv st log -> Inv st' log.
Proof.
  intros [A B] [I1 I2 I3 I4]. split; try assumption.
  - intro k. unfold store_of. rewrite A. apply I1.
  - intros i im X. rewrite B. apply I3. assumption.
Qed.

Lemma step_inv fuel st log o : Inv st log -> step_ok st o ->
  Inv (fst (step mro sem_fixed fuel st o)) (log_step log o).
Proof.
  intros I OK. destruct o; cbn [log_step].
  - apply (inv_register mro sem_fixed st log i im I OK).
  - cbn [step]. destruct (alookup Nat.eqb (impls st) i) as [im|] eqn:A; cbn [fst].
    + pose proof (inv_remove_via st log (i_owner im) i im I A) as R.
      replace (filter (fun e => negb (Nat.eqb (fst e) i)) log)
        with (filter (fun e => negb (Nat.eqb (fst e) i && Nat.eqb (i_owner (snd e)) (i_owner im))) log); [exact R|].
      apply filter_ext_in. intros [j jm] X. cbn [fst snd].
      destruct (Nat.eqb_spec j i); [|reflexivity]. subst j.
      pose proof (inv_impls st log I _ _ X) as A'. rewrite A in A'. inversion A'; subst. rewrite Nat.eqb_refl. reflexivity.
    + replace (filter (fun e => negb (Nat.eqb (fst e) i)) log) with log; [exact I|].
      symmetry. apply filter_all_true.
      intros [j jm] X. cbn [fst]. destruct (Nat.eqb_spec j i); [|reflexivity]. subst.
      pose proof (inv_impls st log I _ _ X) as A'. congruence.
  - cbn [step]. destruct (alookup Nat.eqb (impls st) i) as [im|] eqn:A; cbn [fst].
    + apply inv_remove_via; assumption.
    + replace (filter (fun e => negb (Nat.eqb (fst e) i && Nat.eqb (i_owner (snd e)) c)) log) with log; [exact I|].
      symmetry. apply filter_all_true.
      intros [j jm] X. cbn [fst]. destruct (Nat.eqb_spec j i); [|reflexivity]. subst.
      pose proof (inv_impls st log I _ _ X) as A'. congruence.
  - exact I.
  - eapply inv_regs_same; [|exact I]. split; reflexivity.
  - eapply inv_regs_same; [|exact I]. split; reflexivity.
  - cbn [step]. pose proof (read_frame mro fuel st o h) as F. destruct (read mro sem_fixed fuel st o h) as [st1 r].
    cbn [fst] in *. eapply inv_regs_same; [|exact I]. destruct F as [A [B _]]. split; assumption.
  - eapply inv_regs_same; [|exact I]. split; reflexivity.
  - eapply inv_regs_same; [|exact I]. split; reflexivity.
  - cbn [step]. pose proof (reeval_regs fuel o (map fst (cache st)) st) as F.
    destruct (reeval_keys mro sem_fixed fuel st o (map fst (cache st))) as [st1 r]. cbn [fst] in *.
    eapply inv_regs_same; eassumption.
  - eapply inv_regs_same; [|exact I]. split; reflexivity.
  - cbn [step]. pose proof (roots_regs fuel o hs st) as F.
    destruct (eval_roots mro sem_fixed fuel st o hs) as [st1 r]. cbn [fst] in *. eapply inv_regs_same; eassumption.
  - cbn [step]. pose proof (has_with_frame (get_result mro sem_fixed fuel) k st o h (get_result_frame mro fuel)) as F.
    destruct (has_with (get_result mro sem_fixed fuel) k st o h) as [st1 r]. cbn [fst] in *.
    eapply inv_regs_same; [|exact I]. destruct F as [A [B _]]. split; assumption.
  - exact I.
Qed.

Fixpoint ok_run (fuel : nat) (st : state) (ops : list op) : Prop :=
  match ops with [] => True | o :: r => step_ok st o /\ ok_run fuel (fst (step mro sem_fixed fuel st o)) r end.

Theorem run_inv fuel ops : forall st log, Inv st log -> ok_run fuel st ops ->
  Inv (fst (run mro sem_fixed fuel st ops)) (fold_left log_step ops log).
Proof.
  induction ops as [|o r IH]; intros st log I OK; cbn [run fold_left]; [exact I|].
  destruct OK as [O1 O2]. pose proof (step_inv fuel st log o I O1) as I1.
  destruct (step mro sem_fixed fuel st o) as [st1 x]. cbn [fst] in *.
  specialize (IH st1 (log_step log o) I1 O2). destruct (run mro sem_fixed fuel st1 r) as [st2 xs]. cbn [fst] in *. exact IH.
Qed.

Lemma inv_init : Inv init [].
Proof. split; [intro k; reflexivity | constructor | intros ? ? [] | intros ? ? []]. Qed.

Lemma functions_chain st log c h : Inv st log -> functions mro st c h = chain mro log c h.
Proof.
  intro I. unfold functions, chain. apply flat_map_ext. intro t. apply flat_map_ext. intro s.
  rewrite (inv_store st log I). reflexivity.
Qed.

Theorem functions_refine_chain fuel ops c h : ok_run fuel init ops ->
  functions mro (fst (run mro sem_fixed fuel init ops)) c h = chain mro (fold_left log_step ops []) c h.
Proof. intro OK. apply functions_chain. apply run_inv; [apply inv_init | exact OK]. Qed.

(* scope: an implementation takes part for class c iff it is registered (and not removed) on a class of c's MRO *)
Theorem chain_scope log c h i : (forall j jm, In (j, jm) log -> i_tier jm <= 2) ->
  (In i (chain mro log c h) <->
   exists im, In (i, im) log /\ i_hook im = h /\ In (i_owner im) (mro c)).
Proof.
  intro T. unfold chain. rewrite in_flat_map. split.
  - intros [t [_ X]]. apply in_flat_map in X. destruct X as [s [Hs X]]. apply in_rev in X.
    apply in_log_store in X. destruct X as [im [X M]]. exists im. unfold matches, ekey in M. cbn [snd] in M.
    destruct (key3_eqb_spec (i_owner im, i_hook im, store_ix im) (s, h, t)) as [E|]; [|discriminate]. inversion E; subst.
    tauto.
  - intros [im [X [Hh Ho]]]. exists (store_ix im). split.
    + pose proof (store_ix_le im (T _ _ X)) as Le.
      destruct (store_ix im) as [|[|[|[|[|[|k]]]]]]; cbn; try tauto. lia.
    + apply in_flat_map. exists (i_owner im). split; [assumption|]. apply -> in_rev.
      unfold log_store. apply in_map_iff. exists (i, im). split; [reflexivity|]. apply filter_In. split; [assumption|].
      unfold matches, ekey. cbn [snd]. subst h. destruct (key3_eqb_spec (i_owner im, i_hook im, store_ix im) (i_owner im, i_hook im, store_ix im)); congruence.
Qed.

(* a removed implementation is in no chain *)
Theorem removed_never log i c h :
  ~ In i (chain mro (log_step log (Remove i)) c h).
Proof.
  unfold chain. rewrite in_flat_map. intros [t [_ X]]. apply in_flat_map in X. destruct X as [s [_ X]].
  apply in_rev in X. apply in_log_store in X. destruct X as [im [X _]]. cbn [log_step] in X.
  apply filter_In in X. destruct X as [_ X]. cbn [fst] in X. rewrite Nat.eqb_refl in X. discriminate.
Qed.
End RunRefines.

(* ------------------------------------------------------------------------------------------- *)
(* first non-None wins (chains of constant implementations), and the read lifecycle *)
Section Values.
Variable mro : cls -> list cls.

Definition const_of_in (ims : list (iid * impl)) (i : iid) : option value :=
  match alookup Nat.eqb ims i with
  | Some im => match i_body im with Plain (PConst v) => Some v | _ => None end
  | None => None
  end.
Definition const_of (st : state) (i : iid) : option value := const_of_in (impls st) i.

Fixpoint first_non_none_in (ims : list (iid * impl)) (l : list iid) : value :=
  match l with
  | [] => VNone
  | i :: r => match const_of_in ims i with Some VNone | None => first_non_none_in ims r | Some v => v end
  end.
Definition first_non_none (st : state) (l : list iid) : value := first_non_none_in (impls st) l.

Lemma call_const gr o c h i st v : const_of st i = Some v ->
  call sem_fixed gr o c h i st = (push_trace st i, Val v).
Proof.
  unfold const_of, const_of_in, call. destruct (alookup Nat.eqb (impls st) i) as [im|]; [|discriminate].
  destruct (i_body im) as [p|]; [|discriminate]. destruct p; try discriminate. intro E. inversion E; subst.
  cbn [exec]. unfold after_call. cbn [restore_flag sem_fixed cyc push_trace set_cyc]. rewrite remove_first_head.
  destruct st; reflexivity.
Qed.

Theorem scan_first_non_none gr o c h l : forall st,
  (forall i, In i l -> const_of st i <> None) ->
  snd (scan sem_fixed gr o c h l st) = Val (first_non_none st l).
Proof.
  unfold first_non_none.
  induction l as [|i r IH]; intros st H; cbn [scan first_non_none_in]; [reflexivity|].
  fold (const_of st i).
  destruct (const_of st i) as [v|] eqn:E; [|exfalso; apply (H i); [left; reflexivity | assumption]].
  rewrite (call_const gr o c h i st v E).
  assert (K : snd (scan sem_fixed gr o c h r (push_trace st i)) = Val (first_non_none_in (impls st) r)).
  { rewrite IH; [reflexivity|]. intros j Hj. apply (H j). right. assumption. }
  destruct v; try reflexivity. exact K.
Qed.

(* reading: explicit value first (callables invoked), then the remembered one, without consulting
   any implementation and without changing the state *)
Theorem read_explicit gr st o h v :
  alookup key2_eqb (dict st) (o, h) = Some v -> v <> VNone ->
  read_with gr st o h = (st, Val (match v with VFn0 r | VFn1 r => r | _ => v end)).
Proof. intros E N. unfold read_with. rewrite E. destruct v; try reflexivity. congruence. Qed.

Theorem read_remembered gr st o h v :
  (alookup key2_eqb (dict st) (o, h) = None \/ alookup key2_eqb (dict st) (o, h) = Some VNone) ->
  alookup key2_eqb (cache st) (o, h) = Some v -> v <> VNone ->
  read_with gr st o h = (st, Val v).
Proof. intros [E|E] C N; unfold read_with; rewrite E, C; destruct v; try reflexivity; congruence. Qed.

(* outcome classification of a computed read (C07).  The computation runs with the mark "a read is on the stack" set; the mark is put back
   afterwards; a RecursionError (fuel exhaustion) becomes AttributeError in the outermost read only *)
Theorem read_computed gr st o h :
  (alookup key2_eqb (dict st) (o, h) = None \/ alookup key2_eqb (dict st) (o, h) = Some VNone) ->
  (alookup key2_eqb (cache st) (o, h) = None \/ alookup key2_eqb (cache st) (o, h) = Some VNone) ->
  let '(st0, r) := gr (set_inget st true) o (cls_of st o) h in
  let st1 := set_inget st0 (inget st) in
  read_with gr st o h =
    match r with
    | Exn ERecursion => (st1, Exn (if inget st then ERecursion else EAttr))
    | Exn e => (st1, Exn e)
    | Val VNone => (st1, Exn EAttr)
    | Val v => if nonfinite v then (st1, Exn EValue) else (set_cache st1 (aset key2_eqb (cache st1) (o, h) v), Val v)
    end.
Proof.
  intros D C. unfold read_with.
  assert (D' : match alookup key2_eqb (dict st) (o, h) with Some VNone | None => None | Some v => Some v end = None)
    by (destruct D as [E|E]; rewrite E; reflexivity).
  assert (C' : match alookup key2_eqb (cache st) (o, h) with Some VNone | None => None | Some v => Some v end = None)
    by (destruct C as [E|E]; rewrite E; reflexivity).
  rewrite D', C'. destruct (gr (set_inget st true) o (cls_of st o) h) as [st0 r]. reflexivity.
Qed.

(* the outermost read never ends in RecursionError ... *)
Theorem read_never_recursion_error gr st o h : inget st = false -> snd (read_with gr st o h) <> Exn ERecursion.
Proof.
  intro T. unfold read_with. rewrite T.
  destruct (match alookup key2_eqb (dict st) (o, h) with Some VNone | None => None | Some v => Some v end) as [v|].
  - destruct v; cbn; discriminate.
  - destruct (match alookup key2_eqb (cache st) (o, h) with Some VNone | None => None | Some v => Some v end) as [v|];
      [cbn; discriminate|].
    destruct (gr (set_inget st true) o (cls_of st o) h) as [st1 r]. destruct r as [v|e].
    + destruct v; cbn [snd fst nonfinite]; try discriminate;
        try (match goal with |- context [if ?b then _ else _] => destruct b end; cbn [snd fst]; discriminate).
    + destruct e; cbn; discriminate.
Qed.

(* ... while a read nested in another read's computation hands a runaway recursion on, unchanged and without remembering anything *)
Theorem nested_read_passes_recursion_error gr st o h :
  inget st = true ->
  (alookup key2_eqb (dict st) (o, h) = None \/ alookup key2_eqb (dict st) (o, h) = Some VNone) ->
  (alookup key2_eqb (cache st) (o, h) = None \/ alookup key2_eqb (cache st) (o, h) = Some VNone) ->
  snd (gr (set_inget st true) o (cls_of st o) h) = Exn ERecursion ->
  snd (read_with gr st o h) = Exn ERecursion /\
  cache (fst (read_with gr st o h)) = cache (fst (gr (set_inget st true) o (cls_of st o) h)).
Proof.
  intros T D C R. pose proof (read_computed gr st o h D C) as K.
  destruct (gr (set_inget st true) o (cls_of st o) h) as [st0 r]. cbn [snd fst] in *. subst r. rewrite K, T. split; reflexivity.
Qed.

Theorem failed_read_remembers_nothing gr st o h e :
  snd (read_with gr st o h) = Exn e ->
  cache (fst (read_with gr st o h)) = cache (fst (gr (set_inget st true) o (cls_of st o) h)) \/ fst (read_with gr st o h) = st.
Proof.
  unfold read_with.
  destruct (match alookup key2_eqb (dict st) (o, h) with Some VNone | None => None | Some v => Some v end) as [v|].
  - destruct v; cbn; intro; right; reflexivity.
  - destruct (match alookup key2_eqb (cache st) (o, h) with Some VNone | None => None | Some v => Some v end) as [v|];
      [cbn; intro; right; reflexivity|].
    destruct (gr (set_inget st true) o (cls_of st o) h) as [st1 r]. destruct r as [v|e0].
    + destruct v; cbn [snd fst nonfinite]; try (intro; left; reflexivity); try discriminate;
        try (match goal with |- context [if ?b then _ else _] => destruct b end; cbn [snd fst]; intro X; try discriminate; left; reflexivity).
    + destruct e0; cbn; intro; left; reflexivity.
Qed.

(* no construct of an implementation can handle a runaway recursion of one of its sub-evaluations: try/except AttributeError, has_value,
   sequencing and arithmetic all hand it on *)
Theorem recursion_error_not_catchable gr o cy st a b r h' :
  (snd (exec gr o a cy st) = Exn ERecursion -> snd (exec gr o (PTry a b) cy st) = Exn ERecursion) /\
  (snd (exec gr o a cy st) = Exn ERecursion -> snd (exec gr o (PSeq a b) cy st) = Exn ERecursion) /\
  (snd (exec gr o a cy st) = Exn ERecursion -> snd (exec gr o (PAdd a b) cy st) = Exn ERecursion) /\
  (snd (read_with gr st (the_obj o r) h') = Exn ERecursion ->
   snd (exec gr o (PIfHas HasValue r h' a b) cy st) = Exn ERecursion).
Proof.
  repeat split; cbn [exec]; intro H.
  - destruct (exec gr o a cy st) as [st1 ra]. cbn [snd] in H. subst ra. reflexivity.
  - destruct (exec gr o a cy st) as [st1 ra]. cbn [snd] in H. subst ra. reflexivity.
  - destruct (exec gr o a cy st) as [st1 ra]. cbn [snd] in H. subst ra. reflexivity.
  - unfold has_with. destruct (read_with gr st (the_obj o r) h') as [st1 t]. cbn [snd] in H. subst t. reflexivity.
Qed.

Theorem read_falsy gr st o h :
  (alookup key2_eqb (dict st) (o, h) = Some (VInt 0) -> read_with gr st o h = (st, Val (VInt 0))) /\
  (alookup key2_eqb (dict st) (o, h) = Some (VBool false) -> read_with gr st o h = (st, Val (VBool false))).
Proof. split; intro E; apply (read_explicit gr st o h _ E); discriminate. Qed.

(* assign / delete touch only the explicit value *)
Theorem assign_delete_frame fuel st o h v :
  cache (fst (step mro sem_fixed fuel st (Assign o h v))) = cache st /\
  cache (fst (step mro sem_fixed fuel st (Delete o h))) = cache st /\
  stores (fst (step mro sem_fixed fuel st (Assign o h v))) = stores st.
Proof. repeat split. Qed.

End Values.
